#!/bin/sh
# usage: ./check.sh <property id> <quick|thorough>   |   ./check.sh --replay <replay.json>
# Rebuilds the engine if its sources changed, then runs symgo, which loads
# /repo's current working tree afresh (go/packages + go/ssa) on every run.
set -u
VD="$(cd "$(dirname "$0")" && pwd)"
export GOFLAGS=-mod=mod GOPROXY=off GOSUMDB=off GOTOOLCHAIN=local
export VERIF_DIR="$VD"
build() {
  if [ ! -x "$VD/bin/symgo" ] || [ -n "$(find "$VD/engine" -name '*.go' -newer "$VD/bin/symgo" 2>/dev/null | head -1)" ]; then
    mkdir -p "$VD/bin"
    (cd "$VD/engine" && go build -o "$VD/bin/symgo.tmp.$$" . && mv "$VD/bin/symgo.tmp.$$" "$VD/bin/symgo") || { echo "BROKEN: engine build failed"; exit 2; }
  fi
}
build
cd "$VD"
if [ "${1:-}" = "--replay" ]; then
  exec "$VD/bin/symgo" replay "$2"
fi
ID="$1"; TIER="${2:-quick}"
exec "$VD/bin/symgo" check "harness/$ID/check.json" "$TIER"
