package main

import (
	"go/types"
	"strings"

	"golang.org/x/tools/go/ssa"
)

// pkgIntrinsic resolves pattern-based intrinsics (sync/atomic, reflect).
func pkgIntrinsic(fn *ssa.Function) intrinsic {
	pkg := fn.Pkg
	if pkg == nil && fn.Origin() != nil {
		pkg = fn.Origin().Pkg
	}
	if pkg == nil {
		return nil
	}
	path := pkg.Pkg.Path()
	switch path {
	case "sync/atomic":
		return atomicIntrinsic(fn)
	case "reflect":
		return reflectIntrinsic(fn)
	case "internal/reflectlite":
		return reflectliteIntrinsic(fn)
	}
	return nil
}

func atomicCell(p *Value) *Value {
	if p == nil {
		panic(goPanic{mkRuntimeError("invalid memory address or nil pointer dereference (atomic)")})
	}
	if s, ok := (*p).(Struct); ok {
		return &s[len(s)-1]
	}
	return p
}

func atomicIntrinsic(fn *ssa.Function) intrinsic {
	name := fn.Name()
	isBool := false
	if recv := fn.Signature.Recv(); recv != nil {
		if pt, ok := recv.Type().(*types.Pointer); ok {
			if n, ok := pt.Elem().(*types.Named); ok && n.Obj().Name() == "Bool" {
				isBool = true
			}
		}
	}
	var op string
	for _, o := range []string{"CompareAndSwap", "Add", "Load", "Store", "Swap", "And", "Or"} {
		if strings.HasPrefix(name, o) {
			op = o
			break
		}
	}
	if op == "" {
		return nil
	}
	toCell := func(v Value, cell Value) Value {
		if isBool {
			return Ite(v.(*Term), BVC(32, 1), BVC(32, 0))
		}
		return v
	}
	fromCell := func(v Value) Value {
		if isBool {
			return Not(Eq(v.(*Term), BVC(32, 0)))
		}
		return v
	}
	return func(st *State, c *frame, f *ssa.Function, a []Value) Value {
		st.schedPoint("atomic " + op)
		cell := atomicCell(a[0].(*Value))
		switch op {
		case "Load":
			return fromCell(copyVal(*cell))
		case "Store":
			*cell = toCell(a[1], *cell)
			return nil
		case "Swap":
			old := *cell
			*cell = toCell(a[1], *cell)
			return fromCell(old)
		case "Add":
			*cell = BvBin(OBvAdd, (*cell).(*Term), a[1].(*Term))
			return *cell
		case "And":
			old := *cell
			*cell = BvBin(OBvAnd, (*cell).(*Term), a[1].(*Term))
			return old
		case "Or":
			old := *cell
			*cell = BvBin(OBvOr, (*cell).(*Term), a[1].(*Term))
			return old
		case "CompareAndSwap":
			cur := *cell
			oldv := toCell(a[1], cur)
			var eq *Term
			switch cv := cur.(type) {
			case *Term:
				eq = Eq(cv, oldv.(*Term))
			default:
				eq = eqValues(nil, cur, oldv)
			}
			if st.decide(eq) {
				*cell = toCell(a[2], cur)
				return TrueT
			}
			return FalseT
		}
		return nil
	}
}
