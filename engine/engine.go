package main

import (
	"encoding/json"
	"fmt"
	"go/types"
	"os"
	"path/filepath"
	"sort"
	"strings"
	"sync"

	"golang.org/x/tools/go/packages"
	"golang.org/x/tools/go/ssa"
	"golang.org/x/tools/go/ssa/ssautil"
)

type Config struct {
	Workers         int
	Fuel            int
	MaxDepth        int
	MaxDecisions    int
	ConcCap         int
	SolverTimeoutMs int
	XCheck          int
	Preemptions     int
	MaxThreads      int
	UnstableSort    bool
	NoTimers        bool
	TimerHorizonNs  int64
	RaceCheck       bool
	StopOnViolation bool
	NoStateHash     bool
	NoStubs         bool
}

type Engine struct {
	cfg      Config
	prog     *ssa.Program
	pkgs     map[string]*ssa.Package
	stubs    map[string]Value
	trace    bool
	known    []KnownFinding
	property string

	errorIface *types.Interface
	errStrT    types.Type
	wrapErrT   types.Type

	inconMu sync.Mutex
	incon   map[string]bool

	sliceOfIface   types.Type
	jsonNumT       types.Type
	mapStringIface types.Type
	visited        *visitedSet
	hashGlobals    []*ssa.Global
	fnInfos        sync.Map
	fnMetas        sync.Map
	constVal       sync.Map
	sampleMu       sync.Mutex
	nsample        int
}

type KnownFinding struct {
	Status   string `json:"status"` // known | fixed
	Property string `json:"property"`
	Entry    string `json:"entry"`
	Label    string `json:"label"`
	Class    string `json:"class,omitempty"`
	What     string `json:"what"`
	Commit   string `json:"commit,omitempty"`
}

func (eng *Engine) isKnown(v *Violation) bool {
	for _, k := range eng.known {
		if k.Status == "known" && k.Property == eng.property && k.Entry == v.Entry && k.Label == v.Label && k.Class == v.Class {
			return true
		}
	}
	return false
}

func (eng *Engine) knownFor(v *Violation) *KnownFinding {
	for i, k := range eng.known {
		if k.Status == "known" && k.Property == eng.property && k.Entry == v.Entry && k.Label == v.Label && k.Class == v.Class {
			return &eng.known[i]
		}
	}
	return nil
}

func (eng *Engine) noteInconclusive(msg string) {
	eng.inconMu.Lock()
	if eng.incon != nil {
		eng.incon["inconclusive: "+msg] = true
	}
	eng.inconMu.Unlock()
}

func (eng *Engine) wantSample() bool {
	eng.sampleMu.Lock()
	defer eng.sampleMu.Unlock()
	eng.nsample++
	return eng.nsample <= 40 || eng.nsample%997 == 0
}

// packages whose initialisers are never run and whose functions are not
// interpreted during initialisation of other packages.
var nativePrefixes = []string{
	"runtime", "os", "syscall", "reflect", "internal/", "sync", "unsafe", "net", "crypto", "database/sql",
	"regexp", "encoding/json", "encoding/gob", "encoding/xml", "log", "fmt", "time", "unicode", "math/rand", "math/big",
	"google.golang.org/", "github.com/gogo/protobuf", "github.com/golang/protobuf", "github.com/gorilla/websocket",
	"github.com/go-sql-driver", "github.com/siddontang", "github.com/satori", "golang.org/x/net", "golang.org/x/sys", "golang.org/x/text",
	"github.com/davecgh", "github.com/kylelemons", "github.com/rakyll", "compress", "hash", "mime", "html", "text/", "archive", "path", "flag", "testing",
	"expvar", "os/", "vendor/", "embed", "go/", "debug/", "plugin", "image", "container/", "iter", "maps", "slices", "cmp", "weak", "unique",
}

func isNativePkg(path string) bool {
	for _, p := range nativePrefixes {
		if path == p || strings.HasPrefix(path, p+"/") || (strings.HasSuffix(p, "/") && strings.HasPrefix(path, p)) {
			return true
		}
	}
	return false
}

func (eng *Engine) skipInit(path string) bool {
	return isNativePkg(path)
}

func (eng *Engine) poisonInInit(fn *ssa.Function) bool {
	if fn.Pkg == nil {
		return false
	}
	return isNativePkg(fn.Pkg.Pkg.Path())
}

func (eng *Engine) errorStringType() types.Type {
	return eng.errStrT
}

func (eng *Engine) wrapErrorType() types.Type {
	return eng.wrapErrT
}

// ---------- loading

type CheckSpec struct {
	Property    string            `json:"property"`
	Patterns    []string          `json:"packages"`
	Overlay     map[string]string `json:"overlay"` // path relative to /repo -> path relative to /verif
	Stubs       map[string]string `json:"stubs"`   // ssa function name -> harness function (pkgpath.Name)
	Entries     []EntrySpec       `json:"entries"`
	Assumptions []string          `json:"assumptions"`
	OutOfScope  []string          `json:"out_of_scope"`
	Functions   []string          `json:"functions_claimed"`
}

type EntrySpec struct {
	Name          string            `json:"name"`
	Pkg           string            `json:"pkg"`
	Tiers         []string          `json:"tiers"` // quick, thorough
	MaxPaths      int               `json:"max_paths"`
	Preemptions   int               `json:"preemptions"`
	MaxThreads    int               `json:"max_threads"`
	UnstableSort  bool              `json:"unstable_sort"`
	NoTimers      bool              `json:"no_timers"`
	TimerHorizonS int               `json:"timer_horizon_s"`
	Fuel          int               `json:"fuel"`
	Bounds        string            `json:"bounds"`
	Mandatory     []string          `json:"mandatory"` // cover labels / assert labels that must be reached
	Witness       bool              `json:"witness"`   // reachability twin: must come back violated
	Env           map[string]string `json:"env"`
	TimeoutS      int               `json:"timeout_s"`
	RaceCheck     bool              `json:"race_check"`
	NoNative      bool              `json:"no_native"`
	NoStateHash   bool              `json:"no_state_hash"`
	NoStubs       bool              `json:"no_stubs"`
	MaxDecisions  int               `json:"max_decisions"`
}

// repoDir is the tree under check: /repo. VERIF_REPO points the engine at a
// scratch worktree instead (used only by tools/try_mutant.sh to try a seeded
// change without touching /repo while other runs read it).
var repoDir = func() string {
	if d := os.Getenv("VERIF_REPO"); d != "" {
		return d
	}
	return "/repo"
}()

func verifDir() string {
	if d := os.Getenv("VERIF_DIR"); d != "" {
		return d
	}
	exe, err := os.Executable()
	if err == nil {
		return filepath.Dir(filepath.Dir(exe))
	}
	return "/verif"
}

func (eng *Engine) load(spec *CheckSpec) error {
	overlay := map[string][]byte{}
	vd := verifDir()
	nd, err := os.ReadFile(filepath.Join(vd, "nondet/nondet.go"))
	if err != nil {
		return err
	}
	overlay[filepath.Join(repoDir, "internal/zzverif/nondet/nondet.go")] = nd
	for dst, src := range spec.Overlay {
		b, err := os.ReadFile(filepath.Join(vd, src))
		if err != nil {
			return err
		}
		overlay[filepath.Join(repoDir, dst)] = b
	}
	cfg := &packages.Config{
		Mode:       packages.NeedName | packages.NeedFiles | packages.NeedCompiledGoFiles | packages.NeedImports | packages.NeedDeps | packages.NeedTypes | packages.NeedSyntax | packages.NeedTypesInfo | packages.NeedTypesSizes | packages.NeedModule,
		Dir:        repoDir,
		Env:        append(os.Environ(), "GOFLAGS=-mod=mod", "GOPROXY=off", "GOSUMDB=off", "GOTOOLCHAIN=local", "CGO_ENABLED=0"),
		BuildFlags: []string{"-tags=verif"},
		Overlay:    overlay,
	}
	patterns := append([]string{nondetPkg}, spec.Patterns...)
	pkgs, err := packages.Load(cfg, patterns...)
	if err != nil {
		return err
	}
	nerr := 0
	packages.Visit(pkgs, nil, func(p *packages.Package) {
		for _, e := range p.Errors {
			if nerr < 20 {
				fmt.Fprintf(os.Stderr, "load error: %s: %v\n", p.PkgPath, e)
			}
			nerr++
		}
	})
	if nerr > 0 {
		return fmt.Errorf("%d package load errors (the tree under /repo does not type-check with the harness overlay)", nerr)
	}
	prog, _ := ssautil.AllPackages(pkgs, ssa.InstantiateGenerics)
	prog.Build()
	eng.prog = prog
	eng.pkgs = map[string]*ssa.Package{}
	for _, p := range prog.AllPackages() {
		eng.pkgs[p.Pkg.Path()] = p
	}
	for _, p := range prog.AllPackages() {
		if strings.HasPrefix(p.Pkg.Path(), "github.com/samsarahq/thunder") {
			var names []string
			for n, m := range p.Members {
				if _, ok := m.(*ssa.Global); ok {
					names = append(names, n)
				}
			}
			sort.Strings(names)
			for _, n := range names {
				eng.hashGlobals = append(eng.hashGlobals, p.Members[n].(*ssa.Global))
			}
		}
	}
	emptyIface := types.NewInterfaceType(nil, nil)
	eng.sliceOfIface = types.NewSlice(emptyIface)
	eng.mapStringIface = types.NewMap(types.Typ[types.String], emptyIface)
	// well-known types
	eng.errorIface = types.Universe.Lookup("error").Type().Underlying().(*types.Interface)
	if ep := eng.pkgs["errors"]; ep != nil {
		eng.errStrT = types.NewPointer(ep.Type("errorString").Type())
	}
	if fp := eng.pkgs["fmt"]; fp != nil {
		eng.wrapErrT = types.NewPointer(fp.Type("wrapError").Type())
	}
	if rp := eng.pkgs["reflect"]; rp != nil {
		reflectValueType = rp.Type("Value").Type()
		reflectRtypePtr = types.NewPointer(rp.Type("rtype").Type())
		reflectStructFieldT = rp.Type("StructField").Type().(*types.Named)
	}
	if rl := eng.pkgs["internal/reflectlite"]; rl != nil {
		reflectliteRtype = rl.Type("rtype").Type()
	}
	if runtimeErrorType == nil {
		tn := types.NewTypeName(0, nil, "runtimeError", nil)
		named := types.NewNamed(tn, types.Typ[types.String], nil)
		sig := types.NewSignatureType(types.NewVar(0, nil, "", named), nil, nil, nil, types.NewTuple(types.NewVar(0, nil, "", types.Typ[types.String])), false)
		named.AddMethod(types.NewFunc(0, nil, "Error", sig))
		sig2 := types.NewSignatureType(types.NewVar(0, nil, "", named), nil, nil, nil, nil, false)
		named.AddMethod(types.NewFunc(0, nil, "RuntimeError", sig2))
		runtimeErrorType = named
	}
	// stubs
	eng.stubs = map[string]Value{}
	for target, impl := range spec.Stubs {
		i := strings.LastIndex(impl, ".")
		p := eng.pkgs[impl[:i]]
		if p == nil {
			return fmt.Errorf("stub package %s not loaded", impl[:i])
		}
		f := p.Func(impl[i+1:])
		if f == nil {
			return fmt.Errorf("stub function %s not found", impl)
		}
		eng.stubs[target] = f
	}
	return nil
}

func (eng *Engine) findEntry(e EntrySpec) (*ssa.Function, error) {
	p := eng.pkgs[e.Pkg]
	if p == nil {
		return nil, fmt.Errorf("package %s not loaded", e.Pkg)
	}
	f := p.Func(e.Name)
	if f == nil {
		return nil, fmt.Errorf("entry %s.%s not found", e.Pkg, e.Name)
	}
	return f, nil
}

func loadKnown(path string) []KnownFinding {
	b, err := os.ReadFile(path)
	if err != nil {
		return nil
	}
	var k []KnownFinding
	if err := json.Unmarshal(b, &k); err != nil {
		fmt.Fprintf(os.Stderr, "known_findings.json: %v\n", err)
		os.Exit(2)
	}
	return k
}

func sortedKeys(m map[string]bool) []string {
	var out []string
	for k := range m {
		out = append(out, k)
	}
	sort.Strings(out)
	return out
}
