package main

// Path exploration by re-execution: a path is its list of decisions; the work
// list holds decision prefixes.

import (
	"fmt"
	"sort"
	"strings"
	"sync"
	"time"

	"golang.org/x/tools/go/ssa"
)

type Dec struct {
	Alt    int32
	N      int32  // number of alternatives (2 for branches)
	Val    uint64 // concretisation value
	Kind   uint8  // 0 branch, 1 concretise, 2 choice/sched
	Forced bool
}

const (
	dBranch = 0
	dConc   = 1
	dChoice = 2
)

type NondetRec struct {
	Name string `json:"name"`
	Kind string `json:"kind"` // int, bool, string, choice
	term *Term
	tab  []string
	W    int    `json:"width,omitempty"`
	Val  string `json:"value"`
	alt  int
	Sgn  bool `json:"signed,omitempty"`
}

type Violation struct {
	Entry     string      `json:"entry"`
	Label     string      `json:"label"`
	Class     string      `json:"class,omitempty"`
	Msg       string      `json:"message,omitempty"`
	Values    []NondetRec `json:"values"`
	Decisions []int32     `json:"decisions"`
	Choices   [][2]int32  `json:"choices,omitempty"`
	Schedule  []string    `json:"schedule,omitempty"`
	Trace     []string    `json:"trace,omitempty"`
	Confirmed string      `json:"confirmed_by,omitempty"`
	Known     bool        `json:"known,omitempty"`
}

type State struct {
	eng    *Engine
	ps     *PathSolver
	entry  string
	prefix []Dec
	pos    int
	decs   []Dec
	pc     []*Term
	pcFP   bool
	model  Model
	forks  [][]Dec

	globals   map[*ssa.Global]*Value
	inited    map[*ssa.Package]bool
	initDepth int
	fuel      int

	nondets  []*NondetRec
	varTerms []*Term
	nameSeq  map[string]int

	violations []*Violation
	covers     map[string]bool
	asserts    map[string]int
	funcs      map[string]bool
	intrHits   map[string]bool
	observes   []string
	trace      []string

	// threads
	threads       []*Thread
	cur           *Thread
	preemptions   int
	finished      chan struct{}
	abort         interface{}
	syncObjs      map[*Value]*syncObj
	now           int64
	timers        []*Timer
	schedule      []string
	symbolicPC    bool
	concrete      map[string]string // replay mode: name -> value
	quiesceHook   []Value
	nextObjID     int
	accessLog     map[interface{}]*accessInfo
	races         []string
	timerByPtr    map[*Value]*Timer
	ptrIDs        map[interface{}]uint64
	lenientFmt    int
	jsonSyms      []jsonSym
	jsonDecoders  map[*Value]*[]byte
	jsonUseNumber map[*Value]bool
	jsonNumMode   bool
	hashGlobals   []*ssa.Global
	startThread   func(t *Thread, body func())
}

type PathResult struct {
	Status     string // ok, violation, infeasible, unsupported, fuel, bug
	Msg        string
	Forks      [][]Dec
	Violations []*Violation
	Covers     map[string]bool
	Asserts    map[string]int
	Funcs      map[string]bool
	Intr       map[string]bool
	NDecs      int
	NSym       int // decisions that were not forced (true forks)
	Symbolic   bool
	Sample     map[string]interface{}
	Observes   []string
	Races      []string
	ModelVals  map[string]string
}

func (st *State) addPC(c *Term) {
	if c.IsTrue() {
		return
	}
	st.pc = append(st.pc, c)
	if c.hasFP {
		st.pcFP = true
	}
	st.symbolicPC = true
}

func (st *State) modelOK(c *Term) bool {
	if st.model == nil {
		return false
	}
	return c.Eval(st.model, map[*Term]uint64{}) == 1
}

func (st *State) query(extra *Term, wantModel bool) (string, Model) {
	var vars []*Term
	if wantModel {
		vars = st.varTerms
	}
	res, m := st.ps.Check(st.pc, st.pcFP, extra, vars)
	if strings.HasPrefix(res, "error") {
		panic(unsupported("solver error: " + res))
	}
	return res, m
}

// decide returns the truth value of c on this path, forking when both are feasible.
func (st *State) decide(c *Term) bool {
	if c.IsConst() {
		return c.Val == 1
	}
	if st.pos < len(st.prefix) {
		d := st.prefix[st.pos]
		st.pos++
		st.decs = append(st.decs, d)
		if d.Kind != dBranch {
			panic(engineBug{fmt.Sprintf("replay divergence: expected branch decision at %d, got kind %d", st.pos-1, d.Kind), ""})
		}
		if d.Alt == 0 {
			st.addPC(c)
			return true
		}
		st.addPC(Not(c))
		return false
	}
	if len(st.decs) >= st.eng.cfg.MaxDecisions {
		panic(fuelErr{"decision budget exhausted"})
	}
	var canT, canF bool
	if st.model != nil {
		if c.Eval(st.model, map[*Term]uint64{}) == 1 {
			canT = true
			st.ps.stats.CacheHits++
			r, _ := st.query(Not(c), false)
			canF = r != "unsat"
			if r == "unknown" {
				st.noteUnknown()
			}
		} else {
			canF = true
			st.ps.stats.CacheHits++
			r, m := st.query(c, true)
			canT = r != "unsat"
			if r == "unknown" {
				st.noteUnknown()
			}
			if r == "sat" {
				// we are going to take the true branch: adopt its model
				st.model = m
			}
		}
	} else {
		r, m := st.query(c, true)
		if r == "unknown" {
			st.noteUnknown()
		}
		canT = r != "unsat"
		if r == "sat" {
			st.model = m
		}
		if canT {
			r2, _ := st.query(Not(c), false)
			if r2 == "unknown" {
				st.noteUnknown()
			}
			canF = r2 != "unsat"
		} else {
			canF = true
		}
	}
	switch {
	case canT && canF:
		alt := append(append([]Dec{}, st.decs...), Dec{Alt: 1, N: 2})
		st.forks = append(st.forks, alt)
		st.decs = append(st.decs, Dec{Alt: 0, N: 2})
		st.addPC(c)
		if !st.modelOK(c) {
			st.model = nil
		}
		return true
	case canT:
		st.decs = append(st.decs, Dec{Alt: 0, N: 2, Forced: true})
		st.addPC(c)
		if !st.modelOK(c) {
			st.model = nil
		}
		return true
	default:
		st.decs = append(st.decs, Dec{Alt: 1, N: 2, Forced: true})
		st.addPC(Not(c))
		if st.model != nil && c.Eval(st.model, map[*Term]uint64{}) == 1 {
			st.model = nil
		}
		return false
	}
}

func (st *State) noteUnknown() {
	st.trace = append(st.trace, "solver-unknown on branch")
	st.eng.noteInconclusive("solver returned unknown on a branch query (kept as feasible)")
}

// choose makes an n-way choice that needs no solver (shape / schedule).
func (st *State) choose(n int, what string) int {
	if n <= 1 {
		return 0
	}
	if st.pos < len(st.prefix) {
		d := st.prefix[st.pos]
		st.pos++
		st.decs = append(st.decs, d)
		if d.Kind != dChoice || int(d.N) != n {
			panic(engineBug{fmt.Sprintf("replay divergence: expected %d-way choice (%s) at %d, got kind %d n %d", n, what, st.pos-1, d.Kind, d.N), ""})
		}
		return int(d.Alt)
	}
	if len(st.decs) >= st.eng.cfg.MaxDecisions {
		panic(fuelErr{"decision budget exhausted"})
	}
	for i := n - 1; i >= 1; i-- {
		alt := append(append([]Dec{}, st.decs...), Dec{Alt: int32(i), N: int32(n), Kind: dChoice})
		st.forks = append(st.forks, alt)
	}
	st.decs = append(st.decs, Dec{Alt: 0, N: int32(n), Kind: dChoice})
	return 0
}

// modelValue returns the value of t in some model of the path condition.
func (st *State) modelValue(t *Term) (uint64, bool) {
	if st.model == nil {
		r, m := st.query(nil, true)
		if r != "sat" {
			if r == "unknown" {
				panic(unsupported("solver unknown while concretising"))
			}
			return 0, false
		}
		st.model = m
	}
	return t.Eval(st.model, map[*Term]uint64{}), true
}

func (st *State) concretiseDec(t *Term, what string) uint64 {
	capN := st.eng.cfg.ConcCap
	if what == "formatting" {
		// a symbolic number rendered into a string: enumerate a few values only
		capN = 3
	}
	for n := 0; ; n++ {
		if n > capN {
			panic(fuelErr{"concretisation cap exceeded for " + what})
		}
		if st.pos < len(st.prefix) {
			d := st.prefix[st.pos]
			st.pos++
			st.decs = append(st.decs, d)
			if d.Kind != dConc {
				panic(engineBug{fmt.Sprintf("replay divergence: expected concretisation (%s) at %d", what, st.pos-1), ""})
			}
			eq := Eq(t, &Term{Op: OConst, Sort: t.Sort, Val: d.Val, hasFP: t.Sort.K == SFP})
			if d.Alt == 0 {
				st.addPC(eq)
				return d.Val
			}
			st.addPC(Not(eq))
			continue
		}
		if len(st.decs) >= st.eng.cfg.MaxDecisions {
			panic(fuelErr{"decision budget exhausted"})
		}
		v, ok := st.modelValue(t)
		if !ok {
			panic(abortPath{"infeasible at concretisation"})
		}
		eq := Eq(t, &Term{Op: OConst, Sort: t.Sort, Val: v, hasFP: t.Sort.K == SFP})
		r, _ := st.query(Not(eq), false)
		if r == "unknown" {
			st.noteUnknown()
		}
		if r != "unsat" {
			alt := append(append([]Dec{}, st.decs...), Dec{Alt: 1, N: 2, Kind: dConc, Val: v})
			st.forks = append(st.forks, alt)
			st.decs = append(st.decs, Dec{Alt: 0, N: 2, Kind: dConc, Val: v})
		} else {
			st.decs = append(st.decs, Dec{Alt: 0, N: 2, Kind: dConc, Val: v, Forced: true})
		}
		st.addPC(eq)
		return v
	}
}

// ---------- nondet API (called from intrinsics)

func (st *State) uniqueName(name string) string {
	n := st.nameSeq[name]
	st.nameSeq[name] = n + 1
	if n == 0 {
		return name
	}
	return fmt.Sprintf("%s#%d", name, n)
}

func (st *State) newNondet(name, kind string, s Sort, signed bool) *Term {
	name = st.uniqueName(name)
	rec := &NondetRec{Name: name, Kind: kind, W: s.W, Sgn: signed}
	st.nondets = append(st.nondets, rec)
	if st.concrete != nil {
		val, ok := st.concrete[name]
		if !ok {
			val = "0"
		}
		rec.Val = val
		var c *Term
		switch kind {
		case "bool":
			c = BoolC(val == "true" || val == "1")
		default:
			var iv int64
			var uv uint64
			if _, err := fmt.Sscanf(val, "%d", &iv); err == nil {
				uv = uint64(iv)
			} else {
				fmt.Sscanf(val, "%d", &uv)
			}
			c = BVC(s.W, uv)
		}
		rec.term = c
		return c
	}
	v := NewVar(name, s)
	rec.term = v
	st.varTerms = append(st.varTerms, v)
	return v
}

func (st *State) assume(c *Term) {
	if c.IsTrue() {
		return
	}
	if c.IsFalse() {
		panic(abortPath{"assume false"})
	}
	if st.pos < len(st.prefix) {
		// on a replayed prefix the assumption was feasible before
		st.addPC(c)
		return
	}
	if st.modelOK(c) {
		st.addPC(c)
		return
	}
	r, m := st.query(c, true)
	if r == "unsat" {
		panic(abortPath{"assume infeasible"})
	}
	if r == "unknown" {
		st.noteUnknown()
		st.model = nil
	} else {
		st.model = m
	}
	st.addPC(c)
}

func (st *State) assert(c *Term, label, class string) {
	st.asserts[label]++
	if c.IsTrue() {
		return
	}
	if st.pos < len(st.prefix) && !c.IsFalse() {
		// already examined by the path this prefix was forked from
		st.addPC(c)
		return
	}
	var m Model
	failed := false
	if c.IsFalse() {
		failed = true
		if st.model != nil {
			m = st.model
		} else if len(st.varTerms) > 0 {
			r, mm := st.query(nil, true)
			if r == "sat" {
				m = mm
			}
		} else {
			m = Model{}
		}
	} else if st.model != nil && c.Eval(st.model, map[*Term]uint64{}) == 0 {
		failed = true
		m = st.model
		st.ps.stats.CacheHits++
	} else {
		r, mm := st.query(Not(c), true)
		switch r {
		case "sat":
			failed = true
			m = mm
		case "unknown":
			st.eng.noteInconclusive("solver returned unknown on assertion " + label)
		}
	}
	if failed {
		st.recordViolation(label, class, "", m)
		if c.IsFalse() {
			panic(exitPath{})
		}
		// continue under PC ∧ c if feasible
		r, mm := st.query(c, true)
		if r == "unsat" {
			panic(exitPath{})
		}
		st.addPC(c)
		if r == "sat" {
			st.model = mm
		} else {
			st.model = nil
		}
		return
	}
	st.addPC(c)
}

func (st *State) recordViolation(label, class, msg string, m Model) {
	v := &Violation{Entry: st.entry, Label: label, Class: class, Msg: msg}
	for _, d := range st.decs {
		v.Decisions = append(v.Decisions, d.Alt)
		if d.Kind == dChoice {
			v.Choices = append(v.Choices, [2]int32{d.Alt, d.N})
		}
	}
	v.Values = st.valuation(m)
	v.Schedule = append([]string{}, st.schedule...)
	if n := len(st.trace); n > 0 {
		lo := 0
		if n > 60 {
			lo = n - 60
		}
		v.Trace = append([]string{}, st.trace[lo:]...)
	}
	st.violations = append(st.violations, v)
}

// valuation renders every nondet of the path under model m.
func (st *State) valuation(m Model) []NondetRec {
	var out []NondetRec
	for _, rec := range st.nondets {
		r := *rec
		if rec.Kind == "choice" {
			r.Val = fmt.Sprint(rec.alt)
		} else if rec.term != nil {
			var bits uint64
			if rec.term.IsConst() {
				bits = rec.term.Val
			} else if m != nil {
				bits = m[rec.term.Name]
			}
			switch rec.Kind {
			case "bool":
				r.Val = fmt.Sprint(bits == 1)
			case "string":
				if int(bits) < len(rec.tab) {
					r.Val = rec.tab[bits]
				} else {
					r.Val = rec.tab[0]
				}
			default:
				if rec.Sgn {
					r.Val = fmt.Sprint(sx(bits, rec.W))
				} else {
					r.Val = fmt.Sprint(bits)
				}
			}
		}
		out = append(out, r)
	}
	return out
}

// ---------- running one path

func (eng *Engine) runPath(ps *PathSolver, entry *ssa.Function, prefix []Dec, concrete map[string]string) (res *PathResult) {
	st := &State{
		eng: eng, ps: ps, entry: entry.Name(), prefix: prefix,
		globals: map[*ssa.Global]*Value{}, inited: map[*ssa.Package]bool{},
		fuel: eng.cfg.Fuel, nameSeq: map[string]int{},
		covers: map[string]bool{}, asserts: map[string]int{}, funcs: map[string]bool{}, intrHits: map[string]bool{},
		finished: make(chan struct{}), syncObjs: map[*Value]*syncObj{},
		now: 1_000_000_000_000, concrete: concrete,
		accessLog: map[interface{}]*accessInfo{}, timerByPtr: map[*Value]*Timer{},
		hashGlobals: eng.hashGlobals, jsonDecoders: map[*Value]*[]byte{},
	}
	ps.beginPath()
	res = &PathResult{}
	status, msg := st.runThreads(entry)
	res.Status, res.Msg = status, msg
	if len(st.violations) > 0 && (status == "ok" || status == "exit") {
		res.Status = "violation"
	} else if status == "exit" {
		res.Status = "ok"
	}
	res.Forks = st.forks
	res.Violations = st.violations
	res.Covers = st.covers
	res.Asserts = st.asserts
	res.Funcs = st.funcs
	res.Intr = st.intrHits
	res.NDecs = len(st.decs)
	for _, d := range st.decs {
		if !d.Forced {
			res.NSym++
		}
	}
	res.Symbolic = st.symbolicPC
	res.Observes = st.observes
	res.Races = st.races
	if eng.wantSample() && (res.Status == "ok" || res.Status == "violation") {
		m := st.model
		if m == nil && len(st.varTerms) > 0 {
			func() {
				defer func() { recover() }()
				_, m = st.query(nil, true)
			}()
		}
		if m != nil || len(st.varTerms) == 0 {
			vals := map[string]string{}
			for _, r := range st.valuation(m) {
				vals[r.Name] = r.Val
			}
			res.Sample = map[string]interface{}{"entry": st.entry, "decisions": len(st.decs), "pc_conjuncts": len(st.pc), "one_model": vals, "status": res.Status}
			if len(st.schedule) > 0 {
				res.Sample["schedule"] = st.schedule
			}
			if res.Status == "ok" {
				res.ModelVals = vals
			}
		}
	}
	return res
}

func (st *State) noteFunc(fn *ssa.Function) {
	if fn.Pkg != nil && strings.HasPrefix(fn.Pkg.Pkg.Path(), "github.com/samsarahq/thunder") {
		st.funcs[fn.String()] = true
	}
}

func (st *State) intrinsicHit(name string) { st.intrHits[name] = true }

// ---------- the work list and worker pool

type EntryStats struct {
	Entry        string
	Paths        int
	Completed    int
	Infeasible   int
	Pruned       int
	Nontrivial   int
	SymbolicPath int
	Decisions    int
	Forks        int
	Violations   []*Violation
	Covers       map[string]bool
	Asserts      map[string]int
	Funcs        map[string]bool
	Intr         map[string]bool
	Inconclusive []string
	Samples      []map[string]interface{}
	Solver       SolverStats
	Wall         float64
	XDisagree    int
	Races        map[string]bool
	Aborted      bool
	Models       []map[string]string
}

func (eng *Engine) explore(entry *ssa.Function, maxPaths int, deadline time.Time) *EntryStats {
	eng.visited = nil
	if eng.cfg.Preemptions >= 0 && !eng.cfg.NoStateHash {
		eng.visited = &visitedSet{m: map[hash128]int{}}
	}
	es := &EntryStats{Entry: entry.Name(), Covers: map[string]bool{}, Asserts: map[string]int{}, Funcs: map[string]bool{}, Intr: map[string]bool{}, Races: map[string]bool{}}
	t0 := time.Now()
	var mu sync.Mutex
	cond := sync.NewCond(&mu)
	work := [][]Dec{nil}
	active := 0
	stop := false
	incon := map[string]bool{}
	eng.inconMu.Lock()
	eng.incon = incon
	eng.inconMu.Unlock()
	seenViol := map[string]bool{}
	var wg sync.WaitGroup
	for w := 0; w < eng.cfg.Workers; w++ {
		wg.Add(1)
		go func(w int) {
			defer wg.Done()
			ps := NewPathSolver(eng.cfg.SolverTimeoutMs, eng.cfg.XCheck)
			defer func() {
				mu.Lock()
				es.Solver.add(&ps.stats)
				es.XDisagree += ps.xdis
				mu.Unlock()
				ps.Close()
			}()
			for {
				mu.Lock()
				for len(work) == 0 && active > 0 && !stop {
					cond.Wait()
				}
				if stop || (len(work) == 0 && active == 0) {
					mu.Unlock()
					cond.Broadcast()
					return
				}
				prefix := work[len(work)-1]
				work = work[:len(work)-1]
				active++
				es.Paths++
				np := es.Paths
				mu.Unlock()

				res := eng.runPath(ps, entry, prefix, nil)

				mu.Lock()
				active--
				switch res.Status {
				case "ok", "violation":
					es.Completed++
					if res.Symbolic {
						es.SymbolicPath++
					}
					if res.NSym > 0 {
						es.Nontrivial++
					}
				case "infeasible":
					es.Infeasible++
				case "pruned":
					es.Pruned++
				default:
					key := res.Status + ": " + res.Msg
					if !incon[key] {
						incon[key] = true
					}
				}
				es.Decisions += res.NDecs
				es.Forks += len(res.Forks)
				for _, v := range res.Violations {
					key := v.Label + "|" + v.Class
					if !seenViol[key] {
						seenViol[key] = true
						es.Violations = append(es.Violations, v)
					}
				}
				for k := range res.Covers {
					es.Covers[k] = true
				}
				for k, n := range res.Asserts {
					es.Asserts[k] += n
				}
				for k := range res.Funcs {
					es.Funcs[k] = true
				}
				for k := range res.Intr {
					es.Intr[k] = true
				}
				for _, r := range res.Races {
					es.Races[r] = true
				}
				if res.Sample != nil && len(es.Samples) < 3 {
					es.Samples = append(es.Samples, res.Sample)
				}
				if res.ModelVals != nil && len(es.Models) < 24 {
					es.Models = append(es.Models, res.ModelVals)
				}
				work = append(work, res.Forks...)
				if maxPaths > 0 && np >= maxPaths && len(work) > 0 {
					incon[fmt.Sprintf("bound-exceeded: path budget %d reached with %d prefixes pending", maxPaths, len(work))] = true
					stop = true
					es.Aborted = true
				}
				if time.Now().After(deadline) && len(work) > 0 {
					incon[fmt.Sprintf("bound-exceeded: time budget reached with %d prefixes pending", len(work))] = true
					stop = true
					es.Aborted = true
				}
				if eng.cfg.StopOnViolation && len(es.Violations) > 0 {
					unk := false
					for _, v := range es.Violations {
						if !eng.isKnown(v) {
							unk = true
						}
					}
					if unk {
						stop = true
					}
				}
				mu.Unlock()
				cond.Broadcast()
			}
		}(w)
	}
	wg.Wait()
	for k := range incon {
		es.Inconclusive = append(es.Inconclusive, k)
	}
	sort.Strings(es.Inconclusive)
	es.Wall = time.Since(t0).Seconds()
	return es
}
