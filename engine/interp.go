package main

// The symbolic SSA interpreter: frames, instruction semantics, calls, defers,
// panics. Structure follows x/tools/go/ssa/interp; the value layer is ours.

import (
	"fmt"
	"go/constant"
	"go/token"
	"go/types"
	"os"
	"runtime/debug"
	"strings"

	"golang.org/x/tools/go/ssa"
)

// ---------- engine-level aborts (host panics, never visible to interpreted recover)

type unsupportedErr struct{ msg string }

func unsupported(msg string) unsupportedErr { return unsupportedErr{msg} }

type abortPath struct{ why string } // infeasible assume etc: path silently dropped
type prunedPath struct{}            // state already explored (state hashing)
type fuelErr struct{ msg string }
type threadKill struct{}
type exitPath struct{} // harness asked to end the path (e.g. after a violation)

type deferred struct {
	fn    Value
	args  []Value
	instr *ssa.Defer
	tail  *deferred
}

type frame struct {
	st        *State
	th        *Thread
	caller    *frame
	fn        *ssa.Function
	block     *ssa.BasicBlock
	prevBlock *ssa.BasicBlock
	env       []Value
	info      *fnInfo
	locals    []Value
	defers    *deferred
	result    Value
	pc        int
	panicking bool
	panicVal  Value
	callPos   token.Pos
}

func (fr *frame) get(key ssa.Value) Value {
	switch key := key.(type) {
	case nil:
		return nil
	case *ssa.Function:
		return key
	case *ssa.Builtin:
		return key
	case *ssa.Const:
		return fr.st.constValue(key)
	case *ssa.Global:
		return fr.st.globalAddr(key)
	}
	if i, ok := fr.info.idx[key]; ok {
		r := fr.env[i]
		if p, isP := r.(Poison); isP && fr.st.initDepth == 0 {
			panic(unsupported("use of value from unsupported initialiser: " + p.Why))
		}
		return r
	}
	panic(fmt.Sprintf("get: no value for %T: %v in %s", key, key.Name(), fr.fn))
}

func (st *State) constValue(c *ssa.Const) Value {
	if v, ok := st.eng.constVal.Load(c); ok {
		return v
	}
	v := st.constValue1(c)
	switch v.(type) {
	case *Term, string:
		st.eng.constVal.Store(c, v)
	}
	return v
}

func (st *State) constValue1(c *ssa.Const) Value {
	if c.Value == nil {
		return zero(c.Type())
	}
	t := c.Type().Underlying()
	if b, ok := t.(*types.Basic); ok {
		switch {
		case b.Info()&types.IsBoolean != 0:
			return BoolC(constant.BoolVal(c.Value))
		case b.Info()&types.IsString != 0:
			if c.Value.Kind() == constant.String {
				return constant.StringVal(c.Value)
			}
			return string(rune(c.Int64()))
		case b.Info()&types.IsInteger != 0:
			w := basicWidth(b)
			if b.Info()&types.IsUnsigned != 0 {
				return BVC(w, c.Uint64())
			}
			return BVC(w, uint64(c.Int64()))
		case b.Info()&types.IsFloat != 0:
			f := c.Float64()
			if basicWidth(b) == 32 {
				return FPC32(float32(f))
			}
			return FPC64(f)
		case b.Kind() == types.UnsafePointer:
			return (*Value)(nil)
		}
	}
	if _, ok := t.(*types.Interface); ok {
		return Iface{}
	}
	panic(unsupported("constant of type " + c.Type().String()))
}

func (st *State) globalAddr(g *ssa.Global) *Value {
	if p, ok := st.globals[g]; ok {
		return p
	}
	// lazy package initialisation
	st.ensureInit(g.Pkg)
	if p, ok := st.globals[g]; ok {
		return p
	}
	return st.allocGlobal(g)
}

func (st *State) allocGlobal(g *ssa.Global) *Value {
	p := new(Value)
	*p = zero(g.Type().(*types.Pointer).Elem())
	st.globals[g] = p
	return p
}

func (st *State) ensureInit(pkg *ssa.Package) {
	if pkg == nil || st.inited[pkg] {
		return
	}
	st.inited[pkg] = true
	for _, m := range pkg.Members {
		if g, ok := m.(*ssa.Global); ok {
			if _, ok := st.globals[g]; !ok {
				st.allocGlobal(g)
			}
		}
	}
	if st.eng.skipInit(pkg.Pkg.Path()) {
		return
	}
	init := pkg.Func("init")
	if init == nil || init.Blocks == nil {
		return
	}
	st.initDepth++
	defer func() { st.initDepth-- }()
	st.callFunc(st.curFrame(), token.NoPos, init, nil)
}

func (st *State) curFrame() *frame {
	if st.cur != nil {
		return st.cur.top
	}
	return nil
}

// ---------- running a function

func (st *State) callFunc(caller *frame, pos token.Pos, fnv Value, args []Value) Value {
	switch fn := fnv.(type) {
	case *ssa.Function:
		if fn == nil {
			panic(goPanic{mkRuntimeError("invalid memory address or nil pointer dereference (call of nil func)")})
		}
		return st.callSSA(caller, pos, fn, args, nil)
	case *Closure:
		return st.callSSA(caller, pos, fn.Fn, args, fn.Env)
	case *ssa.Builtin:
		return st.callBuiltin(caller, pos, fn, args)
	case *NativeFn:
		return fn.F(st, args)
	case nil:
		panic(goPanic{mkRuntimeError("invalid memory address or nil pointer dereference (call of nil func)")})
	}
	panic(fmt.Sprintf("cannot call %T", fnv))
}

type fnMeta struct {
	name    string
	intr    intrinsic
	stub    Value
	thunder bool
	native  bool
	atomic  bool
}

func (eng *Engine) metaOf(fn *ssa.Function) *fnMeta {
	if v, ok := eng.fnMetas.Load(fn); ok {
		return v.(*fnMeta)
	}
	m := &fnMeta{name: fn.String()}
	if stub, ok := eng.stubs[m.name]; ok {
		m.stub = stub
	}
	if intr, ok := intrinsics[m.name]; ok {
		m.intr = intr
	} else if fn.Pkg != nil || fn.Origin() != nil {
		m.intr = pkgIntrinsic(fn)
	}
	if fn.Pkg != nil {
		m.thunder = strings.HasPrefix(fn.Pkg.Pkg.Path(), "github.com/samsarahq/thunder")
		m.native = isNativePkg(fn.Pkg.Pkg.Path())
		m.atomic = fn.Pkg.Pkg.Path() == "context" && fn.Synthetic == ""
	}
	eng.fnMetas.Store(fn, m)
	return m
}

func (st *State) callSSA(caller *frame, pos token.Pos, fn *ssa.Function, args []Value, env []Value) Value {
	meta := st.eng.metaOf(fn)
	name := meta.name
	if st.eng.trace {
		fmt.Printf("%*scall %s\n", st.depth(caller), "", name)
	}
	if meta.stub != nil && !st.eng.cfg.NoStubs {
		return st.callFunc(caller, pos, meta.stub, args)
	}
	if meta.intr != nil {
		st.intrHits[name] = true
		return meta.intr(st, caller, fn, args)
	}
	if fn.Blocks == nil {
		if st.initDepth > 0 {
			return Poison{Why: "call of external function " + name}
		}
		panic(unsupported("no body for function " + name))
	}
	if st.initDepth > 0 && meta.native {
		return Poison{Why: "call of unsupported function " + name + " in initialiser"}
	}
	if fn.Pkg != nil && fn.Synthetic == "" {
		st.ensureInit(fn.Pkg)
	}
	if meta.thunder {
		st.funcs[name] = true
	}
	if meta.atomic && st.cur != nil && st.cur.noSched == 0 {
		// the function's internal synchronisation is not interleaved with other
		// threads: it is one visible operation
		st.schedPoint("atomic " + name)
		th := st.cur
		th.noSched++
		defer func() { th.noSched-- }()
	}
	fr := &frame{st: st, caller: caller, fn: fn, callPos: pos}
	if caller != nil {
		fr.th = caller.th
	} else {
		fr.th = st.cur
	}
	d := 0
	for f := caller; f != nil; f = f.caller {
		d++
		if d > st.eng.cfg.MaxDepth {
			panic(fuelErr{"call depth exceeded in " + name})
		}
	}
	fr.info = st.eng.fnInfoOf(fn)
	fr.env = make([]Value, fr.info.n)
	fr.block = fn.Blocks[0]
	fr.locals = make([]Value, len(fn.Locals))
	for i, l := range fn.Locals {
		fr.locals[i] = zero(l.Type().(*types.Pointer).Elem())
		fr.set(l, &fr.locals[i])
	}
	for i, p := range fn.Params {
		fr.set(p, args[i])
	}
	for i, fv := range fn.FreeVars {
		fr.set(fv, env[i])
	}
	saved := fr.th.top
	fr.th.top = fr
	defer func() { fr.th.top = saved }()
	for fr.block != nil {
		st.runFrame(fr)
	}
	return fr.result
}

func (st *State) depth(fr *frame) int {
	d := 0
	for f := fr; f != nil; f = f.caller {
		d++
	}
	return d
}

// runFrame executes fr until it returns or panics; handles recovery like interp.
func (st *State) runFrame(fr *frame) {
	defer func() {
		if fr.block == nil {
			return // normal return
		}
		r := recover()
		gp, isGo := r.(goPanic)
		if !isGo {
			if r != nil {
				if _, ok := r.(unsupportedErr); ok || isEnginePanic(r) {
					panic(r)
				}
				// host-level bug inside the engine: annotate
				if os.Getenv("VERIF_DEBUG") != "" {
					fmt.Fprintf(os.Stderr, "ENGINE BUG %v at %s\n%s\n", r, fr.where(), debug.Stack())
				}
				panic(engineBug{r, fr.where()})
			}
			panic("runFrame: block != nil without panic")
		}
		fr.panicking = true
		fr.panicVal = gp.v
		fr.runDefers()
		fr.block = fr.fn.Recover
	}()
	for {
		b := fr.block
		for i, instr := range b.Instrs {
			fr.pc = i
			st.fuel--
			if st.fuel < 0 {
				panic(fuelErr{"instruction budget exhausted at " + fr.where()})
			}
			switch st.visitInstr(fr, instr) {
			case kReturn:
				return
			case kJump:
				goto next
			}
		}
		panic("fell off end of block")
	next:
		// phis
		if fr.block != nil && len(fr.block.Instrs) > 0 {
			if _, ok := fr.block.Instrs[0].(*ssa.Phi); ok {
				st.doPhis(fr)
			}
		}
	}
}

type engineBug struct {
	r     interface{}
	where string
}

func isEnginePanic(r interface{}) bool {
	switch r.(type) {
	case abortPath, fuelErr, threadKill, exitPath, engineBug, unsupportedErr, prunedPath:
		return true
	}
	return false
}

func (fr *frame) where() string {
	if fr == nil {
		return "?"
	}
	return fr.fn.String()
}

func (st *State) doPhis(fr *frame) {
	var idx int
	for i, p := range fr.block.Preds {
		if p == fr.prevBlock {
			idx = i
			break
		}
	}
	var vals []Value
	var phis []*ssa.Phi
	for _, instr := range fr.block.Instrs {
		phi, ok := instr.(*ssa.Phi)
		if !ok {
			break
		}
		phis = append(phis, phi)
		vals = append(vals, fr.get(phi.Edges[idx]))
	}
	for i, phi := range phis {
		fr.set(phi, vals[i])
	}
}

func (fr *frame) runDefers() {
	for d := fr.defers; d != nil; d = d.tail {
		fr.runDefer(d)
	}
	fr.defers = nil
	if fr.panicking {
		panic(goPanic{fr.panicVal})
	}
}

func (fr *frame) runDefer(d *deferred) {
	var ok bool
	defer func() {
		if !ok {
			r := recover()
			if gp, isGo := r.(goPanic); isGo {
				// deferred call itself panicked
				fr.panicking = true
				fr.panicVal = gp.v
				return
			}
			panic(r)
		}
	}()
	fr.st.callFunc(fr, d.instr.Pos(), d.fn, d.args)
	ok = true
}

type fnInfo struct {
	idx map[ssa.Value]int
	n   int
}

func (eng *Engine) fnInfoOf(fn *ssa.Function) *fnInfo {
	if v, ok := eng.fnInfos.Load(fn); ok {
		return v.(*fnInfo)
	}
	info := &fnInfo{idx: map[ssa.Value]int{}}
	add := func(v ssa.Value) {
		if _, ok := info.idx[v]; !ok {
			info.idx[v] = info.n
			info.n++
		}
	}
	for _, p := range fn.Params {
		add(p)
	}
	for _, fv := range fn.FreeVars {
		add(fv)
	}
	for _, l := range fn.Locals {
		add(l)
	}
	for _, b := range fn.Blocks {
		for _, instr := range b.Instrs {
			if v, ok := instr.(ssa.Value); ok {
				add(v)
			}
		}
	}
	eng.fnInfos.Store(fn, info)
	return info
}

func (fr *frame) set(key ssa.Value, v Value) {
	fr.env[fr.info.idx[key]] = v
}

type continuation int

const (
	kNext continuation = iota
	kReturn
	kJump
)

// poisonOperand: during package initialisation a value produced by an
// unsupported function propagates through every instruction that consumes it.
func (st *State) poisonOperand(fr *frame, instr ssa.Instruction) (Poison, bool) {
	var buf [8]*ssa.Value
	for _, op := range instr.Operands(buf[:0]) {
		if *op == nil {
			continue
		}
		switch (*op).(type) {
		case *ssa.Const, *ssa.Function, *ssa.Builtin, *ssa.Global:
			continue
		}
		if i, ok := fr.info.idx[*op]; ok {
			if p, isP := fr.env[i].(Poison); isP {
				return p, true
			}
		}
	}
	return Poison{}, false
}

func (st *State) visitInstr(fr *frame, instr ssa.Instruction) continuation {
	if st.initDepth > 0 {
		if p, ok := st.poisonOperand(fr, instr); ok {
			switch in := instr.(type) {
			case *ssa.Store:
				if addr, isPtr := fr.get(in.Addr).(*Value); isPtr && addr != nil {
					*addr = p
				}
				return kNext
			case *ssa.If, *ssa.Jump, *ssa.Return, *ssa.Panic, *ssa.RunDefers, *ssa.Phi:
				// fall through to normal handling (Return of poison is fine; If aborts below)
				if _, isIf := instr.(*ssa.If); isIf {
					panic(unsupported("branch on value from unsupported initialiser: " + p.Why))
				}
			case *ssa.MapUpdate, *ssa.Send, *ssa.Go, *ssa.Defer, *ssa.DebugRef:
				return kNext
			default:
				if v, isVal := instr.(ssa.Value); isVal {
					fr.set(v, p)
					return kNext
				}
			}
		}
	}
	switch instr := instr.(type) {
	case *ssa.DebugRef:
	case *ssa.UnOp:
		fr.set(instr, st.unop(fr, instr, fr.get(instr.X)))
	case *ssa.BinOp:
		fr.set(instr, st.binop(instr.Op, instr.X.Type(), fr.get(instr.X), fr.get(instr.Y), instr.Y.Type()))
	case *ssa.Call:
		fn, args := st.prepareCall(fr, &instr.Call)
		fr.set(instr, st.callFunc(fr, instr.Pos(), fn, args))
	case *ssa.ChangeInterface:
		fr.set(instr, fr.get(instr.X))
	case *ssa.ChangeType:
		fr.set(instr, fr.get(instr.X))
	case *ssa.Convert:
		fr.set(instr, st.conv(instr.Type(), instr.X.Type(), fr.get(instr.X)))
	case *ssa.MultiConvert:
		fr.set(instr, st.conv(instr.Type(), instr.X.Type(), fr.get(instr.X)))
	case *ssa.SliceToArrayPointer:
		panic(unsupported("SliceToArrayPointer"))
	case *ssa.MakeInterface:
		fr.set(instr, Iface{T: instr.X.Type(), V: fr.get(instr.X)})
	case *ssa.Extract:
		fr.set(instr, fr.get(instr.Tuple).(Tuple)[instr.Index])
	case *ssa.Slice:
		fr.set(instr, st.sliceOp(fr, instr))
	case *ssa.Return:
		switch len(instr.Results) {
		case 0:
		case 1:
			fr.result = fr.get(instr.Results[0])
		default:
			res := make(Tuple, len(instr.Results))
			for i, r := range instr.Results {
				res[i] = fr.get(r)
			}
			fr.result = res
		}
		fr.block = nil
		return kReturn
	case *ssa.RunDefers:
		fr.runDefers()
	case *ssa.Panic:
		panic(goPanic{fr.get(instr.X)})
	case *ssa.Send:
		st.chanSend(fr.get(instr.Chan).(*Chan), fr.get(instr.X))
	case *ssa.Store:
		addr := fr.get(instr.Addr).(*Value)
		if addr == nil {
			panic(goPanic{mkRuntimeError("invalid memory address or nil pointer dereference")})
		}
		st.noteAccess(addr, true)
		store(instr.Addr.Type().Underlying().(*types.Pointer).Elem(), addr, fr.get(instr.Val))
	case *ssa.If:
		succ := 1
		if st.decide(fr.get(instr.Cond).(*Term)) {
			succ = 0
		}
		fr.prevBlock, fr.block = fr.block, fr.block.Succs[succ]
		return kJump
	case *ssa.Jump:
		fr.prevBlock, fr.block = fr.block, fr.block.Succs[0]
		return kJump
	case *ssa.Defer:
		fn, args := st.prepareCall(fr, &instr.Call)
		if instr.DeferStack != nil {
			panic(unsupported("defer stack (range-over-func)"))
		}
		fr.defers = &deferred{fn: fn, args: args, instr: instr, tail: fr.defers}
	case *ssa.Go:
		fn, args := st.prepareCall(fr, &instr.Call)
		st.goStmt(fr, instr, fn, args)
	case *ssa.MakeChan:
		n := st.concInt(fr.get(instr.Size).(*Term), "chan size")
		fr.set(instr, st.newChan(int(n), instr.Type().Underlying().(*types.Chan).Elem()))
	case *ssa.Alloc:
		var addr *Value
		if instr.Heap {
			addr = new(Value)
			fr.set(instr, addr)
		} else {
			addr = fr.env[fr.info.idx[instr]].(*Value)
		}
		*addr = zero(instr.Type().Underlying().(*types.Pointer).Elem())
	case *ssa.MakeSlice:
		ln := st.concInt(fr.get(instr.Len).(*Term), "make len")
		cp := st.concInt(fr.get(instr.Cap).(*Term), "make cap")
		if ln < 0 || cp < ln || cp > 1<<20 {
			panic(goPanic{mkRuntimeError("makeslice: len out of range")})
		}
		a := make([]Value, cp)
		et := instr.Type().Underlying().(*types.Slice).Elem()
		for i := range a {
			a[i] = zero(et)
		}
		fr.set(instr, Slice{A: a[:ln]})
	case *ssa.MakeMap:
		fr.set(instr, newMap(instr.Type().Underlying().(*types.Map)))
	case *ssa.Range:
		fr.set(instr, st.rangeIter(fr.get(instr.X), instr.X.Type()))
	case *ssa.Next:
		fr.set(instr, fr.get(instr.Iter).(iterator).next(st))
	case *ssa.FieldAddr:
		p := fr.get(instr.X).(*Value)
		if p == nil {
			panic(goPanic{mkRuntimeError("invalid memory address or nil pointer dereference")})
		}
		fr.set(instr, &(*p).(Struct)[instr.Field])
	case *ssa.Field:
		fr.set(instr, copyVal(fr.get(instr.X).(Struct)[instr.Field]))
	case *ssa.IndexAddr:
		x := fr.get(instr.X)
		idx := fr.get(instr.Index).(*Term)
		switch x := x.(type) {
		case Slice:
			i := st.index(idx, len(x.A), isSigned(instr.Index.Type()))
			fr.set(instr, &x.A[i])
		case *Value:
			if x == nil {
				panic(goPanic{mkRuntimeError("invalid memory address or nil pointer dereference")})
			}
			a := (*x).(Array)
			i := st.index(idx, len(a), isSigned(instr.Index.Type()))
			fr.set(instr, &a[i])
		default:
			panic(fmt.Sprintf("IndexAddr on %T", x))
		}
	case *ssa.Index:
		x := fr.get(instr.X)
		idx := fr.get(instr.Index).(*Term)
		switch x := x.(type) {
		case Array:
			i := st.index(idx, len(x), isSigned(instr.Index.Type()))
			fr.set(instr, copyVal(x[i]))
		case string:
			i := st.index(idx, len(x), isSigned(instr.Index.Type()))
			fr.set(instr, BVC(8, uint64(x[i])))
		case *SymStr:
			s := st.concStr(x)
			i := st.index(idx, len(s), isSigned(instr.Index.Type()))
			fr.set(instr, BVC(8, uint64(s[i])))
		default:
			panic(fmt.Sprintf("Index on %T", x))
		}
	case *ssa.Lookup:
		fr.set(instr, st.lookup(instr, fr.get(instr.X), fr.get(instr.Index)))
	case *ssa.MapUpdate:
		m := fr.get(instr.Map).(*Map)
		st.noteAccess(m, true)
		m.set(st, fr.get(instr.Key), copyVal(fr.get(instr.Value)))
	case *ssa.TypeAssert:
		fr.set(instr, st.typeAssert(instr, fr.get(instr.X).(Iface)))
	case *ssa.MakeClosure:
		var bindings []Value
		for _, b := range instr.Bindings {
			bindings = append(bindings, fr.get(b))
		}
		fr.set(instr, &Closure{instr.Fn.(*ssa.Function), bindings})
	case *ssa.Phi:
		// handled at block entry; first block cannot have phis
	case *ssa.Select:
		fr.set(instr, st.selectOp(fr, instr))
	default:
		panic(unsupported(fmt.Sprintf("instruction %T", instr)))
	}
	return kNext
}

func store(T types.Type, addr *Value, v Value) {
	switch T := T.Underlying().(type) {
	case *types.Struct:
		if _, ok := v.(RValue); ok {
			*addr = v
			return
		}
		lhs, ok := (*addr).(Struct)
		if !ok {
			*addr = copyVal(v)
			return
		}
		rhs := v.(Struct)
		for i := range lhs {
			store(T.Field(i).Type(), &lhs[i], rhs[i])
		}
	case *types.Array:
		lhs := (*addr).(Array)
		rhs := v.(Array)
		for i := range lhs {
			store(T.Elem(), &lhs[i], rhs[i])
		}
	default:
		*addr = v
	}
}

func (st *State) prepareCall(fr *frame, call *ssa.CallCommon) (fn Value, args []Value) {
	v := fr.get(call.Value)
	if call.Method == nil {
		fn = v
	} else {
		recv := v.(Iface)
		if recv.T == nil {
			panic(goPanic{mkRuntimeError("invalid memory address or nil pointer dereference (method call on nil interface)")})
		}
		fn = st.lookupMethod(recv.T, call.Method)
		args = append(args, recv.V)
	}
	for _, a := range call.Args {
		args = append(args, fr.get(a))
	}
	return
}

func (st *State) lookupMethod(t types.Type, meth *types.Func) Value {
	if t == runtimeErrorType {
		return &NativeFn{Name: "runtimeError." + meth.Name(), F: func(st *State, args []Value) Value {
			if meth.Name() == "Error" {
				return args[0]
			}
			return nil
		}}
	}
	f := st.eng.prog.LookupMethod(t, meth.Pkg(), meth.Name())
	if f == nil {
		panic(unsupported(fmt.Sprintf("method %s not found on %s", meth.Name(), t)))
	}
	return f
}

func (st *State) typeAssert(instr *ssa.TypeAssert, itf Iface) Value {
	var v Value
	err := ""
	if idst, ok := instr.AssertedType.Underlying().(*types.Interface); ok {
		v = itf
		if itf.T == nil {
			err = fmt.Sprintf("interface conversion: interface is nil, not %s", instr.AssertedType)
		} else if !st.implements(itf.T, idst) {
			err = fmt.Sprintf("interface conversion: %v is not %v: missing method", itf.T, instr.AssertedType)
		}
	} else {
		v = itf.V
		if itf.T == nil || !types.Identical(itf.T, instr.AssertedType) {
			err = fmt.Sprintf("interface conversion: interface is %v, not %v", itf.T, instr.AssertedType)
		}
	}
	if err != "" {
		if !instr.CommaOk {
			panic(goPanic{mkRuntimeError(err)})
		}
		return Tuple{zero(instr.AssertedType), FalseT}
	}
	if instr.CommaOk {
		return Tuple{copyVal(v), TrueT}
	}
	return copyVal(v)
}

func (st *State) implements(t types.Type, iface *types.Interface) bool {
	if iface.NumMethods() == 0 {
		return true
	}
	return types.Implements(t, iface)
}

// index bounds-checks a possibly symbolic index and returns a concrete one.
func (st *State) index(idx *Term, n int, signed bool) int {
	if idx.IsConst() {
		var i int64
		if signed {
			i = idx.SVal()
		} else {
			i = int64(idx.Val)
			if idx.Val > 1<<62 {
				i = -1
			}
		}
		if i < 0 || i >= int64(n) {
			if os.Getenv("VERIF_PANIC_TRACE") != "" && st.cur != nil {
				fmt.Fprintln(os.Stderr, "index out of range in", st.cur.name, st.stackOf(st.cur))
			}
			panic(goPanic{mkRuntimeError(fmt.Sprintf("index out of range [%d] with length %d", i, n))})
		}
		return int(i)
	}
	w := idx.Sort.W
	inRange := BvCmp(OBvUlt, idx, BVC(w, uint64(n)))
	if n == 0 || !st.decide(inRange) {
		panic(goPanic{mkRuntimeError(fmt.Sprintf("index out of range [symbolic] with length %d", n))})
	}
	return int(st.concretise(idx, "index"))
}

func (st *State) lookup(instr *ssa.Lookup, x, idx Value) Value {
	switch x := x.(type) {
	case *Map:
		st.noteAccess(x, false)
		mt := instr.X.Type().Underlying().(*types.Map)
		v, ok := x.get(st, idx)
		if !ok {
			v = zero(mt.Elem())
		} else {
			v = copyVal(v)
		}
		if instr.CommaOk {
			return Tuple{v, BoolC(ok)}
		}
		return v
	case string:
		i := st.index(idx.(*Term), len(x), isSigned(instr.Index.Type()))
		return BVC(8, uint64(x[i]))
	case *SymStr:
		s := st.concStr(x)
		i := st.index(idx.(*Term), len(s), isSigned(instr.Index.Type()))
		return BVC(8, uint64(s[i]))
	}
	panic(fmt.Sprintf("lookup on %T", x))
}

func (st *State) sliceOp(fr *frame, instr *ssa.Slice) Value {
	x := fr.get(instr.X)
	getIdx := func(v ssa.Value, def int) int {
		if v == nil {
			return def
		}
		t := fr.get(v).(*Term)
		if t.IsConst() {
			if isSigned(v.Type()) {
				return int(t.SVal())
			}
			return int(t.Val)
		}
		// symbolic bound: must be within [0, 1<<20] else out of range
		ok := BvCmp(OBvUle, t, BVC(t.Sort.W, 1<<20))
		if !st.decide(ok) {
			panic(goPanic{mkRuntimeError("slice bounds out of range [symbolic]")})
		}
		return int(st.concretise(t, "slice bound"))
	}
	switch x := x.(type) {
	case string, *SymStr:
		var s string
		if ss, ok := x.(*SymStr); ok {
			s = st.concStr(ss)
		} else {
			s = x.(string)
		}
		lo := getIdx(instr.Low, 0)
		hi := getIdx(instr.High, len(s))
		if lo < 0 || hi > len(s) || lo > hi {
			panic(goPanic{mkRuntimeError(fmt.Sprintf("slice bounds out of range [%d:%d] with length %d", lo, hi, len(s)))})
		}
		return s[lo:hi]
	case Slice:
		lo := getIdx(instr.Low, 0)
		hi := getIdx(instr.High, len(x.A))
		mx := getIdx(instr.Max, cap(x.A))
		if lo < 0 || hi > cap(x.A) || lo > hi || mx > cap(x.A) || hi > mx {
			panic(goPanic{mkRuntimeError(fmt.Sprintf("slice bounds out of range [%d:%d:%d] with capacity %d", lo, hi, mx, cap(x.A)))})
		}
		if x.Nil && lo == 0 && hi == 0 {
			return Slice{Nil: true}
		}
		return Slice{A: x.A[lo:hi:mx]}
	case *Value:
		if x == nil {
			panic(goPanic{mkRuntimeError("invalid memory address or nil pointer dereference")})
		}
		a := (*x).(Array)
		lo := getIdx(instr.Low, 0)
		hi := getIdx(instr.High, len(a))
		mx := getIdx(instr.Max, len(a))
		if lo < 0 || hi > len(a) || lo > hi || mx > len(a) || hi > mx {
			panic(goPanic{mkRuntimeError("slice bounds out of range")})
		}
		return Slice{A: []Value(a)[lo:hi:mx]}
	}
	panic(fmt.Sprintf("slice of %T", x))
}

// ---------- iterators

type iterator interface {
	next(st *State) Value
}

type mapIter struct {
	m    *Map
	snap []*mapEntry
	i    int
}

func (it *mapIter) next(st *State) Value {
	for it.i < len(it.snap) {
		e := it.snap[it.i]
		it.i++
		if e.Deleted {
			continue
		}
		return Tuple{TrueT, e.K, copyVal(e.V)}
	}
	return Tuple{FalseT, nil, nil}
}

type strIter struct {
	s string
	i int
}

func (it *strIter) next(st *State) Value {
	if it.i >= len(it.s) {
		return Tuple{FalseT, BVC(64, 0), BVC(32, 0)}
	}
	for j, r := range it.s[it.i:] {
		_ = j
		idx := it.i
		it.i += len(string(r))
		if r == 0xFFFD {
			// invalid byte: advance by one
			it.i = idx + 1
		}
		return Tuple{TrueT, BVC(64, uint64(idx)), BVC(32, uint64(r))}
	}
	return Tuple{FalseT, BVC(64, 0), BVC(32, 0)}
}

func (st *State) rangeIter(x Value, t types.Type) iterator {
	switch x := x.(type) {
	case *Map:
		st.noteAccess(x, false)
		return &mapIter{m: x, snap: x.live()}
	case string:
		return &strIter{s: x}
	case *SymStr:
		return &strIter{s: st.concStr(x)}
	}
	panic(unsupported(fmt.Sprintf("range over %T", x)))
}

// ---------- builtins

func (st *State) callBuiltin(caller *frame, pos token.Pos, fn *ssa.Builtin, args []Value) Value {
	switch fn.Name() {
	case "append":
		if len(args) == 1 {
			return args[0]
		}
		s := args[0].(Slice)
		var add []Value
		switch y := args[1].(type) {
		case Slice:
			add = y.A
		case string:
			for i := 0; i < len(y); i++ {
				add = append(add, BVC(8, uint64(y[i])))
			}
		case *SymStr:
			ys := st.concStr(y)
			for i := 0; i < len(ys); i++ {
				add = append(add, BVC(8, uint64(ys[i])))
			}
		}
		if len(add) == 0 {
			return s
		}
		// Go semantics: reuse capacity when it suffices, else grow (copy).
		if len(s.A)+len(add) <= cap(s.A) {
			n := len(s.A)
			out := s.A[:n+len(add)]
			for i, v := range add {
				out[n+i] = copyVal(v)
			}
			return Slice{A: out}
		}
		newCap := 2 * cap(s.A)
		if newCap < len(s.A)+len(add) {
			newCap = len(s.A) + len(add)
		}
		out := make([]Value, len(s.A), newCap)
		copy(out, s.A)
		for _, v := range add {
			out = append(out, copyVal(v))
		}
		return Slice{A: out}
	case "copy":
		dst := args[0].(Slice)
		var n int
		switch src := args[1].(type) {
		case Slice:
			n = len(src.A)
			if len(dst.A) < n {
				n = len(dst.A)
			}
			tmp := make([]Value, n)
			for i := 0; i < n; i++ {
				tmp[i] = copyVal(src.A[i])
			}
			copy(dst.A, tmp)
		case string:
			n = len(src)
			if len(dst.A) < n {
				n = len(dst.A)
			}
			for i := 0; i < n; i++ {
				dst.A[i] = BVC(8, uint64(src[i]))
			}
		default:
			panic(unsupported("copy from symbolic string"))
		}
		return BVC(64, uint64(n))
	case "close":
		st.chanClose(args[0].(*Chan))
		return nil
	case "delete":
		m := args[0].(*Map)
		st.noteAccess(m, true)
		m.del(st, args[1])
		return nil
	case "clear":
		switch x := args[0].(type) {
		case *Map:
			x.clear()
		default:
			panic(unsupported("clear of non-map"))
		}
		return nil
	case "print", "println":
		return nil
	case "len":
		switch x := args[0].(type) {
		case string:
			return BVC(64, uint64(len(x)))
		case *SymStr:
			return st.symStrLen(x)
		case Array:
			return BVC(64, uint64(len(x)))
		case *Value:
			if x == nil {
				return BVC(64, 0)
			}
			return BVC(64, uint64(len((*x).(Array))))
		case Slice:
			return BVC(64, uint64(len(x.A)))
		case *Map:
			st.noteAccess(x, false)
			return BVC(64, uint64(x.Len()))
		case *Chan:
			if x == nil {
				return BVC(64, 0)
			}
			return BVC(64, uint64(len(x.buf)))
		}
		panic(fmt.Sprintf("len of %T", args[0]))
	case "cap":
		switch x := args[0].(type) {
		case Array:
			return BVC(64, uint64(len(x)))
		case *Value:
			return BVC(64, uint64(len((*x).(Array))))
		case Slice:
			return BVC(64, uint64(cap(x.A)))
		case *Chan:
			if x == nil {
				return BVC(64, 0)
			}
			return BVC(64, uint64(x.cap))
		}
		panic(fmt.Sprintf("cap of %T", args[0]))
	case "min", "max":
		panic(unsupported("min/max builtin"))
	case "panic":
		panic(goPanic{args[0]})
	case "recover":
		return st.doRecover(caller)
	case "ssa:wrapnilchk":
		recv := args[0]
		if p, ok := recv.(*Value); ok && p == nil {
			panic(goPanic{mkRuntimeError(fmt.Sprintf("value method %s.%s called using nil *%s pointer", showValue(args[1]), showValue(args[2]), showValue(args[1])))})
		}
		return recv
	}
	panic(unsupported("builtin " + fn.Name()))
}

func (st *State) doRecover(caller *frame) Value {
	// recover() is only effective when called directly by a deferred function
	// of a panicking frame.
	if caller == nil {
		return Iface{}
	}
	if caller.fn.Synthetic != "" && strings.HasPrefix(caller.fn.Synthetic, "wrapper") {
		caller = caller.caller
		if caller == nil {
			return Iface{}
		}
	}
	if fr := caller.caller; fr != nil && fr.panicking {
		fr.panicking = false
		p := fr.panicVal
		fr.panicVal = nil
		if it, ok := p.(Iface); ok {
			return it
		}
		return Iface{T: types.Typ[types.String], V: fmt.Sprint(p)}
	}
	return Iface{}
}
