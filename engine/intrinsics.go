package main

// Intrinsics: the environment models. Everything here is part of the trusted
// base and is listed in evidence when hit.

import (
	"errors"
	"fmt"
	"go/token"
	"go/types"
	"sort"
	"strconv"
	"strings"
	"unicode"

	"golang.org/x/tools/go/ssa"
)

type intrinsic func(st *State, caller *frame, fn *ssa.Function, args []Value) Value

const nondetPkg = "github.com/samsarahq/thunder/internal/zzverif/nondet"

var intrinsics map[string]intrinsic

func init() {
	intrinsics = map[string]intrinsic{}
	nd := func(name string, f intrinsic) { intrinsics[nondetPkg+"."+name] = f }

	intBits := func(w int, signed bool) intrinsic {
		return func(st *State, caller *frame, fn *ssa.Function, args []Value) Value {
			return st.newNondet(st.concStrV(args[0]), "int", BV(w), signed)
		}
	}
	nd("Int64", intBits(64, true))
	nd("Int", intBits(64, true))
	nd("Int32", intBits(32, true))
	nd("Int16", intBits(16, true))
	nd("Int8", intBits(8, true))
	nd("Uint64", intBits(64, false))
	nd("Uint", intBits(64, false))
	nd("Uint32", intBits(32, false))
	nd("Uint16", intBits(16, false))
	nd("Uint8", intBits(8, false))
	nd("Bool", func(st *State, caller *frame, fn *ssa.Function, args []Value) Value {
		return st.newNondet(st.concStrV(args[0]), "bool", BoolSort, false)
	})
	nd("Float64FromInt", func(st *State, caller *frame, fn *ssa.Function, args []Value) Value {
		return IntToFp(args[0].(*Term), true, 64)
	})
	nd("IntRange", func(st *State, caller *frame, fn *ssa.Function, args []Value) Value {
		v := st.newNondet(st.concStrV(args[0]), "int", BV(64), true)
		lo, hi := args[1].(*Term), args[2].(*Term)
		st.assume(And(BvCmp(OBvSle, lo, v), BvCmp(OBvSle, v, hi)))
		return v
	})
	nd("StringFrom", func(st *State, caller *frame, fn *ssa.Function, args []Value) Value {
		name := st.uniqueName(st.concStrV(args[0]))
		opts := args[1].(Slice)
		tab := make([]string, len(opts.A))
		for i, o := range opts.A {
			tab[i] = st.concStrV(o)
		}
		if len(tab) == 0 {
			panic(unsupported("StringFrom with no options"))
		}
		rec := &NondetRec{Name: name, Kind: "string", tab: tab, W: 8}
		st.nondets = append(st.nondets, rec)
		if st.concrete != nil {
			val := st.concrete[name]
			rec.Val = val
			idx := 0
			for i, s := range tab {
				if s == val {
					idx = i
				}
			}
			rec.term = BVC(8, uint64(idx))
			return tab[idx]
		}
		if len(tab) == 1 {
			rec.term = BVC(8, 0)
			return tab[0]
		}
		id := NewVar(name, BV(8))
		rec.term = id
		st.varTerms = append(st.varTerms, id)
		st.assume(BvCmp(OBvUlt, id, BVC(8, uint64(len(tab)))))
		return &SymStr{Tab: tab, ID: id, Name: name}
	})
	nd("Choice", func(st *State, caller *frame, fn *ssa.Function, args []Value) Value {
		name := st.uniqueName(st.concStrV(args[0]))
		n := int(st.concInt(args[1].(*Term), "choice n"))
		rec := &NondetRec{Name: name, Kind: "choice"}
		st.nondets = append(st.nondets, rec)
		rec.alt = st.choose(n, "choice "+name)
		return BVC(64, uint64(rec.alt))
	})
	nd("Assume", func(st *State, caller *frame, fn *ssa.Function, args []Value) Value {
		st.assume(args[0].(*Term))
		return nil
	})
	nd("Assert", func(st *State, caller *frame, fn *ssa.Function, args []Value) Value {
		st.assert(args[0].(*Term), st.concStrV(args[1]), "")
		return nil
	})
	nd("AssertClass", func(st *State, caller *frame, fn *ssa.Function, args []Value) Value {
		st.assert(args[0].(*Term), st.concStrV(args[1]), st.concStrV(args[2]))
		return nil
	})
	nd("Cover", func(st *State, caller *frame, fn *ssa.Function, args []Value) Value {
		st.covers[st.concStrV(args[0])] = true
		return nil
	})
	nd("Symbolic", func(st *State, caller *frame, fn *ssa.Function, args []Value) Value {
		return BoolC(st.concrete == nil)
	})
	nd("Interpreted", func(st *State, caller *frame, fn *ssa.Function, args []Value) Value {
		return TrueT
	})
	nd("And", func(st *State, caller *frame, fn *ssa.Function, args []Value) Value {
		return And(args[0].(*Term), args[1].(*Term))
	})
	nd("Or", func(st *State, caller *frame, fn *ssa.Function, args []Value) Value {
		return Or(args[0].(*Term), args[1].(*Term))
	})
	nd("Not", func(st *State, caller *frame, fn *ssa.Function, args []Value) Value {
		return Not(args[0].(*Term))
	})
	nd("Implies", func(st *State, caller *frame, fn *ssa.Function, args []Value) Value {
		return Implies(args[0].(*Term), args[1].(*Term))
	})
	nd("IteInt", func(st *State, caller *frame, fn *ssa.Function, args []Value) Value {
		return Ite(args[0].(*Term), args[1].(*Term), args[2].(*Term))
	})
	nd("DeepEq", func(st *State, caller *frame, fn *ssa.Function, args []Value) Value {
		return st.deepEq(args[0], args[1], 0)
	})
	nd("Quiesce", func(st *State, caller *frame, fn *ssa.Function, args []Value) Value {
		st.quiesce()
		return nil
	})
	nd("Yield", func(st *State, caller *frame, fn *ssa.Function, args []Value) Value {
		st.yieldPoint()
		return nil
	})
	nd("Go", func(st *State, caller *frame, fn *ssa.Function, args []Value) Value {
		name := st.concStrV(args[0])
		f := args[1]
		t := st.spawn(name, func() { st.callFunc(nil, token.NoPos, f, nil) })
		t.spawnFn = f
		st.startEager(t)
		st.schedPoint("go")
		return nil
	})
	nd("Trace", func(st *State, caller *frame, fn *ssa.Function, args []Value) Value {
		st.trace = append(st.trace, st.cur.name+": "+st.concStrV(args[0]))
		return nil
	})
	nd("Show", func(st *State, caller *frame, fn *ssa.Function, args []Value) Value {
		return showValue(args[0])
	})
	nd("NumThreads", func(st *State, caller *frame, fn *ssa.Function, args []Value) Value {
		return BVC(64, uint64(len(st.threads)))
	})
	nd("BlockedThreads", func(st *State, caller *frame, fn *ssa.Function, args []Value) Value {
		n := 0
		for _, t := range st.threads {
			if t != st.cur && !t.done && !t.isTimer {
				n++
			}
		}
		return BVC(64, uint64(n))
	})

	// ---- sync
	in := func(name string, f intrinsic) { intrinsics[name] = f }
	in("(*sync.Mutex).Lock", func(st *State, c *frame, fn *ssa.Function, a []Value) Value { st.mutexLock(a[0].(*Value)); return nil })
	in("(*sync.Mutex).Unlock", func(st *State, c *frame, fn *ssa.Function, a []Value) Value {
		st.mutexUnlock(a[0].(*Value))
		return nil
	})
	in("(*sync.Mutex).TryLock", func(st *State, c *frame, fn *ssa.Function, a []Value) Value {
		return BoolC(st.mutexTryLock(a[0].(*Value)))
	})
	in("(*sync.RWMutex).Lock", func(st *State, c *frame, fn *ssa.Function, a []Value) Value {
		st.mutexLock(a[0].(*Value))
		return nil
	})
	in("(*sync.RWMutex).Unlock", func(st *State, c *frame, fn *ssa.Function, a []Value) Value {
		st.mutexUnlock(a[0].(*Value))
		return nil
	})
	in("(*sync.RWMutex).RLock", func(st *State, c *frame, fn *ssa.Function, a []Value) Value {
		st.rwRLock(a[0].(*Value))
		return nil
	})
	in("(*sync.RWMutex).RUnlock", func(st *State, c *frame, fn *ssa.Function, a []Value) Value {
		st.rwRUnlock(a[0].(*Value))
		return nil
	})
	in("(*sync.WaitGroup).Add", func(st *State, c *frame, fn *ssa.Function, a []Value) Value {
		st.wgAdd(a[0].(*Value), st.concInt(a[1].(*Term), "wg delta"))
		return nil
	})
	in("(*sync.WaitGroup).Done", func(st *State, c *frame, fn *ssa.Function, a []Value) Value {
		st.wgAdd(a[0].(*Value), -1)
		return nil
	})
	in("(*sync.WaitGroup).Wait", func(st *State, c *frame, fn *ssa.Function, a []Value) Value {
		st.wgWait(a[0].(*Value))
		return nil
	})
	in("(*sync.Once).Do", func(st *State, c *frame, fn *ssa.Function, a []Value) Value {
		st.onceDo(a[0].(*Value), a[1], c)
		return nil
	})
	in("(*sync.Pool).Get", func(st *State, c *frame, fn *ssa.Function, a []Value) Value {
		p := a[0].(*Value)
		s := (*p).(Struct)
		newf := s[len(s)-1]
		if isNilFunc(newf) {
			return Iface{}
		}
		return st.callFunc(c, token.NoPos, newf, nil)
	})
	in("(*sync.Pool).Put", func(st *State, c *frame, fn *ssa.Function, a []Value) Value { return nil })

	// ---- runtime / misc
	in("runtime.Gosched", func(st *State, c *frame, fn *ssa.Function, a []Value) Value { st.yieldPoint(); return nil })
	in("runtime.Stack", func(st *State, c *frame, fn *ssa.Function, a []Value) Value { return BVC(64, 0) })
	in("runtime/debug.Stack", func(st *State, c *frame, fn *ssa.Function, a []Value) Value { return Slice{A: []Value{}} })
	in("runtime.Callers", func(st *State, c *frame, fn *ssa.Function, a []Value) Value { return BVC(64, 0) })
	in("runtime.Caller", func(st *State, c *frame, fn *ssa.Function, a []Value) Value {
		return Tuple{BVC(64, 0), "", BVC(64, 0), FalseT}
	})
	in("runtime.GC", func(st *State, c *frame, fn *ssa.Function, a []Value) Value { return nil })
	in("runtime.SetFinalizer", func(st *State, c *frame, fn *ssa.Function, a []Value) Value { return nil })
	in("runtime.KeepAlive", func(st *State, c *frame, fn *ssa.Function, a []Value) Value { return nil })
	in("runtime.NumGoroutine", func(st *State, c *frame, fn *ssa.Function, a []Value) Value {
		n := 0
		for _, t := range st.threads {
			if !t.done && !t.isTimer {
				n++
			}
		}
		return BVC(64, uint64(n))
	})
	in("os.Getenv", func(st *State, c *frame, fn *ssa.Function, a []Value) Value { return "" })
	in("internal/godebug.New", func(st *State, c *frame, fn *ssa.Function, a []Value) Value { return (*Value)(nil) })
	in("(*internal/godebug.Setting).Value", func(st *State, c *frame, fn *ssa.Function, a []Value) Value { return "" })
	in("(*internal/godebug.Setting).IncNonDefault", func(st *State, c *frame, fn *ssa.Function, a []Value) Value { return nil })

	// ---- time
	in("time.Now", func(st *State, c *frame, fn *ssa.Function, a []Value) Value {
		return st.timeValue(st.now)
	})
	in("time.Sleep", func(st *State, c *frame, fn *ssa.Function, a []Value) Value {
		st.now += st.concInt(a[0].(*Term), "sleep")
		st.yieldPoint()
		return nil
	})
	in("time.NewTimer", func(st *State, c *frame, fn *ssa.Function, a []Value) Value {
		return st.mkTimer(fn.Signature.Results().At(0).Type(), st.concInt(a[0].(*Term), "timer"), nil)
	})
	in("time.AfterFunc", func(st *State, c *frame, fn *ssa.Function, a []Value) Value {
		return st.mkTimer(fn.Signature.Results().At(0).Type(), st.concInt(a[0].(*Term), "timer"), a[1])
	})
	in("time.After", func(st *State, c *frame, fn *ssa.Function, a []Value) Value {
		tt := fn.Prog.ImportedPackage("time").Type("Timer").Type()
		p := st.mkTimer(types.NewPointer(tt), st.concInt(a[0].(*Term), "timer"), nil).(*Value)
		return (*p).(Struct)[0]
	})
	in("(*time.Timer).Stop", func(st *State, c *frame, fn *ssa.Function, a []Value) Value {
		tm := st.timerOf(a[0].(*Value))
		if tm.armed {
			st.schedPoint("timer stop")
		}
		return BoolC(st.stopTimer(tm))
	})
	in("(*time.Timer).Reset", func(st *State, c *frame, fn *ssa.Function, a []Value) Value {
		tm := st.timerOf(a[0].(*Value))
		if tm.armed {
			st.schedPoint("timer reset")
		}
		was := st.stopTimer(tm)
		st.armTimer(tm, st.concInt(a[1].(*Term), "timer"))
		return BoolC(was)
	})
	in("time.NewTicker", func(st *State, c *frame, fn *ssa.Function, a []Value) Value {
		// a ticker that never ticks within the explored window
		tt := fn.Signature.Results().At(0).Type()
		p := new(Value)
		*p = zero(tt.Underlying().(*types.Pointer).Elem())
		(*p).(Struct)[0] = st.newChan(1, fn.Prog.ImportedPackage("time").Type("Time").Type())
		return p
	})
	in("(*time.Ticker).Stop", func(st *State, c *frame, fn *ssa.Function, a []Value) Value { return nil })
	in("time.runtimeNano", func(st *State, c *frame, fn *ssa.Function, a []Value) Value { return BVC(64, uint64(st.now)) })

	// ---- errors / fmt / strconv / strings / sort / unicode
	in("fmt.Sprintf", func(st *State, c *frame, fn *ssa.Function, a []Value) Value {
		return fmt.Sprintf(st.concStrV(a[0]), st.hostArgs(c, a[1])...)
	})
	in("fmt.Sprint", func(st *State, c *frame, fn *ssa.Function, a []Value) Value {
		return fmt.Sprint(st.hostArgs(c, a[0])...)
	})
	in("fmt.Sprintln", func(st *State, c *frame, fn *ssa.Function, a []Value) Value {
		return fmt.Sprintln(st.hostArgs(c, a[0])...)
	})
	in("fmt.Errorf", func(st *State, c *frame, fn *ssa.Function, a []Value) Value {
		format := st.concStrV(a[0])
		st.lenientFmt++
		hargs := st.hostArgs(c, a[1])
		st.lenientFmt--
		msg := fmt.Errorf(format, hargs...).Error()
		// keep the wrapped error (first %w) for errors.Unwrap
		var wrapped Value = Iface{}
		if strings.Contains(format, "%w") {
			for _, x := range a[1].(Slice).A {
				if it, ok := x.(Iface); ok && it.T != nil && st.isError(it.T) {
					wrapped = it
					break
				}
			}
		}
		return st.mkError(msg, wrapped)
	})
	for _, n := range []string{"fmt.Println", "fmt.Printf", "fmt.Print", "fmt.Fprintf", "fmt.Fprintln", "fmt.Fprint"} {
		in(n, func(st *State, c *frame, fn *ssa.Function, a []Value) Value {
			return Tuple{BVC(64, 0), Iface{}}
		})
	}
	for _, n := range []string{"log.Printf", "log.Println", "log.Print", "(*log.Logger).Printf", "(*log.Logger).Println", "(*log.Logger).Print", "(*log.Logger).Output"} {
		in(n, func(st *State, c *frame, fn *ssa.Function, a []Value) Value {
			if fn.Signature.Results().Len() == 1 {
				return Iface{}
			}
			return nil
		})
	}
	for _, n := range []string{"log.Fatalf", "log.Fatal", "log.Fatalln", "log.Panicf", "log.Panic"} {
		in(n, func(st *State, c *frame, fn *ssa.Function, a []Value) Value {
			panic(goPanic{Iface{T: types.Typ[types.String], V: "log.Fatal/Panic called"}})
		})
	}
	in("errors.New", func(st *State, c *frame, fn *ssa.Function, a []Value) Value {
		return st.mkError(st.concStrV(a[0]), Iface{})
	})
	in("errors.Unwrap", func(st *State, c *frame, fn *ssa.Function, a []Value) Value {
		return st.errUnwrap(c, a[0].(Iface))
	})
	in("errors.Is", func(st *State, c *frame, fn *ssa.Function, a []Value) Value {
		e, target := a[0].(Iface), a[1].(Iface)
		for n := 0; e.T != nil && n < 20; n++ {
			if types.Comparable(e.T) && st.decide(eqValues(nil, e, target)) {
				return TrueT
			}
			e = st.errUnwrap(c, e)
		}
		return FalseT
	})
	in("errors.As", func(st *State, c *frame, fn *ssa.Function, a []Value) Value {
		e, target := a[0].(Iface), a[1].(Iface)
		if target.T == nil {
			panic(goPanic{Iface{T: types.Typ[types.String], V: "errors: target cannot be nil"}})
		}
		pt, ok := target.T.Underlying().(*types.Pointer)
		tp, _ := target.V.(*Value)
		if !ok || tp == nil {
			panic(goPanic{Iface{T: types.Typ[types.String], V: "errors: target must be a non-nil pointer"}})
		}
		elem := pt.Elem()
		iface, isIface := elem.Underlying().(*types.Interface)
		for n := 0; e.T != nil && n < 20; n++ {
			if isIface {
				if st.implements(e.T, iface) {
					*tp = e
					return TrueT
				}
			} else if types.Identical(e.T, elem) {
				*tp = copyVal(e.V)
				return TrueT
			}
			if st.hasMethod(e.T, "As") {
				m := st.lookupMethodByName(e.T, "As")
				if r, ok := st.callFunc(c, token.NoPos, m, []Value{e.V, target}).(*Term); ok && st.decide(r) {
					return TrueT
				}
			}
			e = st.errUnwrap(c, e)
		}
		return FalseT
	})
	in("strconv.Itoa", func(st *State, c *frame, fn *ssa.Function, a []Value) Value {
		return strconv.Itoa(int(st.concInt(a[0].(*Term), "itoa")))
	})
	in("strconv.FormatInt", func(st *State, c *frame, fn *ssa.Function, a []Value) Value {
		return strconv.FormatInt(st.concInt(a[0].(*Term), "formatint"), int(st.concInt(a[1].(*Term), "base")))
	})
	in("strconv.Quote", func(st *State, c *frame, fn *ssa.Function, a []Value) Value { return strconv.Quote(st.concStrV(a[0])) })
	in("strconv.Atoi", func(st *State, c *frame, fn *ssa.Function, a []Value) Value {
		v, err := strconv.Atoi(st.concStrV(a[0]))
		return Tuple{BVC(64, uint64(int64(v))), st.hostErr(err)}
	})
	in("strconv.ParseInt", func(st *State, c *frame, fn *ssa.Function, a []Value) Value {
		v, err := strconv.ParseInt(st.concStrV(a[0]), int(st.concInt(a[1].(*Term), "base")), int(st.concInt(a[2].(*Term), "bits")))
		return Tuple{BVC(64, uint64(v)), st.hostErr(err)}
	})
	in("strconv.ParseUint", func(st *State, c *frame, fn *ssa.Function, a []Value) Value {
		v, err := strconv.ParseUint(st.concStrV(a[0]), int(st.concInt(a[1].(*Term), "base")), int(st.concInt(a[2].(*Term), "bits")))
		return Tuple{BVC(64, v), st.hostErr(err)}
	})
	in("strconv.ParseFloat", func(st *State, c *frame, fn *ssa.Function, a []Value) Value {
		v, err := strconv.ParseFloat(st.concStrV(a[0]), int(st.concInt(a[1].(*Term), "bits")))
		return Tuple{FPC64(v), st.hostErr(err)}
	})
	in("strconv.ParseBool", func(st *State, c *frame, fn *ssa.Function, a []Value) Value {
		v, err := strconv.ParseBool(st.concStrV(a[0]))
		return Tuple{BoolC(v), st.hostErr(err)}
	})
	str1 := func(f func(string) string) intrinsic {
		return func(st *State, c *frame, fn *ssa.Function, a []Value) Value { return f(st.concStrV(a[0])) }
	}
	in("strings.ToLower", str1(strings.ToLower))
	in("strings.ToUpper", str1(strings.ToUpper))
	in("strings.TrimSpace", str1(strings.TrimSpace))
	in("strings.Title", str1(strings.Title))
	str2b := func(f func(a, b string) bool) intrinsic {
		return func(st *State, c *frame, fn *ssa.Function, a []Value) Value {
			return BoolC(f(st.concStrV(a[0]), st.concStrV(a[1])))
		}
	}
	in("strings.Contains", str2b(strings.Contains))
	in("strings.HasPrefix", str2b(strings.HasPrefix))
	in("strings.HasSuffix", str2b(strings.HasSuffix))
	in("strings.EqualFold", str2b(strings.EqualFold))
	in("strings.Index", func(st *State, c *frame, fn *ssa.Function, a []Value) Value {
		return BVC(64, uint64(int64(strings.Index(st.concStrV(a[0]), st.concStrV(a[1])))))
	})
	in("strings.IndexByte", func(st *State, c *frame, fn *ssa.Function, a []Value) Value {
		return BVC(64, uint64(int64(strings.IndexByte(st.concStrV(a[0]), byte(st.concretise(a[1].(*Term), "byte"))))))
	})
	in("strings.Count", func(st *State, c *frame, fn *ssa.Function, a []Value) Value {
		return BVC(64, uint64(int64(strings.Count(st.concStrV(a[0]), st.concStrV(a[1])))))
	})
	in("strings.LastIndex", func(st *State, c *frame, fn *ssa.Function, a []Value) Value {
		return BVC(64, uint64(int64(strings.LastIndex(st.concStrV(a[0]), st.concStrV(a[1])))))
	})
	in("strings.ContainsRune", func(st *State, c *frame, fn *ssa.Function, a []Value) Value {
		return BoolC(strings.ContainsRune(st.concStrV(a[0]), rune(int32(st.concretise(a[1].(*Term), "rune")))))
	})
	in("strings.ContainsAny", func(st *State, c *frame, fn *ssa.Function, a []Value) Value {
		return BoolC(strings.ContainsAny(st.concStrV(a[0]), st.concStrV(a[1])))
	})
	in("strings.IndexRune", func(st *State, c *frame, fn *ssa.Function, a []Value) Value {
		return BVC(64, uint64(int64(strings.IndexRune(st.concStrV(a[0]), rune(int32(st.concretise(a[1].(*Term), "rune")))))))
	})
	in("strings.IndexAny", func(st *State, c *frame, fn *ssa.Function, a []Value) Value {
		return BVC(64, uint64(int64(strings.IndexAny(st.concStrV(a[0]), st.concStrV(a[1])))))
	})
	in("strings.TrimLeft", func(st *State, c *frame, fn *ssa.Function, a []Value) Value {
		return strings.TrimLeft(st.concStrV(a[0]), st.concStrV(a[1]))
	})
	in("strings.TrimRight", func(st *State, c *frame, fn *ssa.Function, a []Value) Value {
		return strings.TrimRight(st.concStrV(a[0]), st.concStrV(a[1]))
	})
	in("strings.Compare", func(st *State, c *frame, fn *ssa.Function, a []Value) Value {
		return BVC(64, uint64(int64(strings.Compare(st.concStrV(a[0]), st.concStrV(a[1])))))
	})
	in("strings.TrimPrefix", func(st *State, c *frame, fn *ssa.Function, a []Value) Value {
		return strings.TrimPrefix(st.concStrV(a[0]), st.concStrV(a[1]))
	})
	in("strings.TrimSuffix", func(st *State, c *frame, fn *ssa.Function, a []Value) Value {
		return strings.TrimSuffix(st.concStrV(a[0]), st.concStrV(a[1]))
	})
	in("strings.Trim", func(st *State, c *frame, fn *ssa.Function, a []Value) Value {
		return strings.Trim(st.concStrV(a[0]), st.concStrV(a[1]))
	})
	in("strings.Repeat", func(st *State, c *frame, fn *ssa.Function, a []Value) Value {
		return strings.Repeat(st.concStrV(a[0]), int(st.concInt(a[1].(*Term), "repeat")))
	})
	in("strings.Replace", func(st *State, c *frame, fn *ssa.Function, a []Value) Value {
		return strings.Replace(st.concStrV(a[0]), st.concStrV(a[1]), st.concStrV(a[2]), int(st.concInt(a[3].(*Term), "n")))
	})
	in("strings.ReplaceAll", func(st *State, c *frame, fn *ssa.Function, a []Value) Value {
		return strings.ReplaceAll(st.concStrV(a[0]), st.concStrV(a[1]), st.concStrV(a[2]))
	})
	strSlice := func(ss []string) Value {
		out := make([]Value, len(ss))
		for i, s := range ss {
			out[i] = s
		}
		return Slice{A: out}
	}
	in("strings.Split", func(st *State, c *frame, fn *ssa.Function, a []Value) Value {
		return strSlice(strings.Split(st.concStrV(a[0]), st.concStrV(a[1])))
	})
	in("strings.SplitN", func(st *State, c *frame, fn *ssa.Function, a []Value) Value {
		return strSlice(strings.SplitN(st.concStrV(a[0]), st.concStrV(a[1]), int(st.concInt(a[2].(*Term), "n"))))
	})
	in("strings.Fields", func(st *State, c *frame, fn *ssa.Function, a []Value) Value {
		return strSlice(strings.Fields(st.concStrV(a[0])))
	})
	in("strings.Join", func(st *State, c *frame, fn *ssa.Function, a []Value) Value {
		var ss []string
		for _, x := range a[0].(Slice).A {
			ss = append(ss, st.concStrV(x))
		}
		return strings.Join(ss, st.concStrV(a[1]))
	})
	uni := func(f func(rune) bool) intrinsic {
		return func(st *State, c *frame, fn *ssa.Function, a []Value) Value {
			return BoolC(f(rune(int32(st.concretise(a[0].(*Term), "rune")))))
		}
	}
	in("unicode.IsUpper", uni(unicode.IsUpper))
	in("unicode.IsLower", uni(unicode.IsLower))
	in("unicode.IsLetter", uni(unicode.IsLetter))
	in("unicode.IsDigit", uni(unicode.IsDigit))
	in("unicode.IsSpace", uni(unicode.IsSpace))
	in("unicode.ToLower", func(st *State, c *frame, fn *ssa.Function, a []Value) Value {
		return BVC(32, uint64(unicode.ToLower(rune(int32(st.concretise(a[0].(*Term), "rune"))))))
	})
	in("unicode.ToUpper", func(st *State, c *frame, fn *ssa.Function, a []Value) Value {
		return BVC(32, uint64(unicode.ToUpper(rune(int32(st.concretise(a[0].(*Term), "rune"))))))
	})

	// ---- sort: one stable insertion sort drives the interpreted less
	in("sort.Slice", sortSliceIntrinsic)
	in("sort.SliceStable", sortSliceIntrinsic)
	in("sort.Strings", func(st *State, c *frame, fn *ssa.Function, a []Value) Value {
		s := a[0].(Slice).A
		st.insertionSort(len(s), func(i, j int) bool {
			return st.decide(st.binop(token.LSS, types.Typ[types.String], s[i], s[j], nil).(*Term))
		}, func(i, j int) { s[i], s[j] = s[j], s[i] })
		return nil
	})
	in("sort.Ints", func(st *State, c *frame, fn *ssa.Function, a []Value) Value {
		s := a[0].(Slice).A
		st.insertionSort(len(s), func(i, j int) bool {
			return st.decide(BvCmp(OBvSlt, s[i].(*Term), s[j].(*Term)))
		}, func(i, j int) { s[i], s[j] = s[j], s[i] })
		return nil
	})
	sortIface := func(st *State, c *frame, fn *ssa.Function, a []Value) Value {
		it := a[0].(Iface)
		m := func(name string) Value {
			f := st.eng.prog.LookupMethod(it.T, nil, name)
			if f == nil {
				panic(unsupported("sort.Interface method " + name))
			}
			return f
		}
		n := int(st.concInt(st.callFunc(c, token.NoPos, m("Len"), []Value{it.V}).(*Term), "sort len"))
		less, swap := m("Less"), m("Swap")
		st.insertionSort(n, func(i, j int) bool {
			return st.decide(st.callFunc(c, token.NoPos, less, []Value{it.V, BVC(64, uint64(i)), BVC(64, uint64(j))}).(*Term))
		}, func(i, j int) {
			st.callFunc(c, token.NoPos, swap, []Value{it.V, BVC(64, uint64(i)), BVC(64, uint64(j))})
		})
		return nil
	}
	in("sort.Sort", sortIface)
	in("sort.Stable", sortIface)
	in("sort.SearchInts", func(st *State, c *frame, fn *ssa.Function, a []Value) Value {
		panic(unsupported("sort.SearchInts"))
	})
}

func sortSliceIntrinsic(st *State, c *frame, fn *ssa.Function, a []Value) Value {
	it := a[0].(Iface)
	s, ok := it.V.(Slice)
	if !ok {
		panic(unsupported("sort.Slice of non-slice"))
	}
	less := a[1]
	lessFn := func(i, j int) bool {
		return st.decide(st.callFunc(c, token.NoPos, less, []Value{BVC(64, uint64(i)), BVC(64, uint64(j))}).(*Term))
	}
	swap := func(i, j int) { s.A[i], s.A[j] = s.A[j], s.A[i] }
	st.insertionSort(len(s.A), lessFn, swap)
	if st.eng.cfg.UnstableSort && fn.Name() == "Slice" {
		st.permuteTies(len(s.A), lessFn, swap)
	}
	return nil
}

// permuteTies models that sort.Slice / sort.Sort are not stable: after the
// (stable) sort every maximal run of elements that compare equal is either kept
// or reversed, by choice. Any order of ties is allowed by the contract; the
// real implementation happens to be stable below 13 elements, so code that
// relies on it only breaks for longer inputs — this model shows it for short ones.
func (st *State) permuteTies(n int, less func(i, j int) bool, swap func(i, j int)) {
	for i := 0; i < n; {
		j := i + 1
		for j < n && !less(j-1, j) {
			j++
		}
		if j-i >= 2 && st.choose(2, "sort-ties") == 1 {
			for a, b := i, j-1; a < b; a, b = a+1, b-1 {
				swap(a, b)
			}
		}
		i = j
	}
}

// insertionSort: stable; a valid implementation of sort.Slice, SliceStable,
// Sort, Stable.
func (st *State) insertionSort(n int, less func(i, j int) bool, swap func(i, j int)) {
	for i := 1; i < n; i++ {
		for j := i; j > 0 && less(j, j-1); j-- {
			swap(j, j-1)
		}
	}
}

// ---------- errors

// errorString values are Iface{T: *errors.errorString, V: ptr to Struct{s}}
// built from the real errors package type so that interpreted code can call
// Error() on them through the normal method lookup.
func (st *State) mkError(msg string, wrapped Value) Value {
	if w, ok := wrapped.(Iface); ok && w.T != nil {
		wt := st.eng.wrapErrorType()
		if wt != nil {
			p := new(Value)
			*p = Struct{msg, w}
			return Iface{T: wt, V: p}
		}
	}
	et := st.eng.errorStringType()
	p := new(Value)
	*p = Struct{msg}
	return Iface{T: et, V: p}
}

func (st *State) hostErr(err error) Value {
	if err == nil {
		return Iface{}
	}
	return st.mkError(err.Error(), Iface{})
}

func (st *State) isError(t types.Type) bool {
	return types.Implements(t, st.eng.errorIface)
}

func (st *State) errorString(c *frame, it Iface) string {
	m := st.lookupMethodByName(it.T, "Error")
	return st.concStrV(st.callFunc(c, token.NoPos, m, []Value{it.V}))
}

func (st *State) lookupMethodByName(t types.Type, name string) Value {
	if t == runtimeErrorType {
		return &NativeFn{Name: "runtimeError.Error", F: func(st *State, args []Value) Value { return args[0] }}
	}
	ms := st.eng.prog.MethodSets.MethodSet(t)
	for i := 0; i < ms.Len(); i++ {
		if ms.At(i).Obj().Name() == name {
			f := st.eng.prog.MethodValue(ms.At(i))
			if f != nil {
				return f
			}
		}
	}
	panic(unsupported("method " + name + " on " + t.String()))
}

func (st *State) hasMethod(t types.Type, name string) bool {
	ms := st.eng.prog.MethodSets.MethodSet(t)
	for i := 0; i < ms.Len(); i++ {
		if ms.At(i).Obj().Name() == name {
			return true
		}
	}
	return false
}

func (st *State) errUnwrap(c *frame, e Iface) Iface {
	if e.T == nil || !st.hasMethod(e.T, "Unwrap") {
		return Iface{}
	}
	m := st.lookupMethodByName(e.T, "Unwrap")
	r := st.callFunc(c, token.NoPos, m, []Value{e.V})
	if it, ok := r.(Iface); ok {
		return it
	}
	return Iface{}
}

// ---------- host conversion for formatting

type hostStringer string

func (h hostStringer) String() string { return string(h) }

func (st *State) hostArgs(c *frame, v Value) []interface{} {
	s, ok := v.(Slice)
	if !ok {
		return nil
	}
	out := make([]interface{}, len(s.A))
	for i, a := range s.A {
		out[i] = st.toHost(c, a, nil, 0)
	}
	return out
}

func (st *State) toHost(c *frame, v Value, t types.Type, depth int) interface{} {
	if depth > 8 {
		return "…"
	}
	switch x := v.(type) {
	case nil:
		return nil
	case Iface:
		if x.T == nil {
			return nil
		}
		if x.T == runtimeErrorType {
			return errors.New(x.V.(string))
		}
		if st.isError(x.T) {
			return errors.New(st.errorString(c, x))
		}
		if st.hasMethod(x.T, "String") {
			if _, isBasic := x.T.Underlying().(*types.Basic); !isBasic || true {
				m := st.lookupMethodByName(x.T, "String")
				if f, ok := m.(*ssa.Function); ok && f.Signature.Params().Len() == 0 && f.Signature.Results().Len() == 1 {
					if b, ok := f.Signature.Results().At(0).Type().Underlying().(*types.Basic); ok && b.Kind() == types.String {
						return hostStringer(st.concStrV(st.callFunc(c, token.NoPos, m, []Value{x.V})))
					}
				}
			}
		}
		return st.toHost(c, x.V, x.T, depth+1)
	case *Term:
		if !x.IsConst() && st.lenientFmt > 0 {
			return hostStringer("<symbolic>")
		}
		if !x.IsConst() {
			bits := st.concretise(x, "formatting")
			x = &Term{Op: OConst, Sort: x.Sort, Val: bits}
		}
		switch x.Sort.K {
		case SBool:
			return x.Val == 1
		case SFP:
			if x.Sort.W == 32 {
				return float32(x.FVal())
			}
			return x.FVal()
		}
		signed := true
		if t != nil {
			signed = isSigned(t)
			if b, ok := t.Underlying().(*types.Basic); ok {
				switch b.Kind() {
				case types.Int:
					return int(x.SVal())
				case types.Int8:
					return int8(x.SVal())
				case types.Int16:
					return int16(x.SVal())
				case types.Int32:
					return int32(x.SVal())
				case types.Int64:
					return x.SVal()
				case types.Uint:
					return uint(x.Val)
				case types.Uint8:
					return uint8(x.Val)
				case types.Uint16:
					return uint16(x.Val)
				case types.Uint32:
					return uint32(x.Val)
				case types.Uint64:
					return x.Val
				}
			}
		}
		if signed {
			return x.SVal()
		}
		return x.Val
	case string:
		return x
	case *SymStr:
		if st.lenientFmt > 0 {
			return hostStringer("<symbolic string>")
		}
		return st.concStr(x)
	case Slice:
		if x.Nil {
			if t != nil {
				if sl, ok := t.Underlying().(*types.Slice); ok {
					if b, ok := sl.Elem().Underlying().(*types.Basic); ok && b.Kind() == types.Uint8 {
						return []byte(nil)
					}
				}
			}
			return []interface{}(nil)
		}
		var et types.Type
		if t != nil {
			if sl, ok := t.Underlying().(*types.Slice); ok {
				et = sl.Elem()
				if b, ok := et.Underlying().(*types.Basic); ok && b.Kind() == types.Uint8 {
					bs := make([]byte, len(x.A))
					for i, e := range x.A {
						bs[i] = byte(st.concretise(e.(*Term), "byte"))
					}
					return bs
				}
			}
		}
		out := make([]interface{}, len(x.A))
		for i, e := range x.A {
			out[i] = st.toHost(c, e, et, depth+1)
		}
		return out
	case *Map:
		if x == nil {
			return map[string]interface{}(nil)
		}
		out := map[string]interface{}{}
		var kt, vt types.Type
		if x.T != nil {
			kt, vt = x.T.Key(), x.T.Elem()
		}
		for _, e := range x.live() {
			out[fmt.Sprint(st.toHost(c, e.K, kt, depth+1))] = st.toHost(c, e.V, vt, depth+1)
		}
		return out
	case *Value:
		if x == nil {
			return nil
		}
		var et types.Type
		if t != nil {
			if pt, ok := t.Underlying().(*types.Pointer); ok {
				et = pt.Elem()
			}
		}
		if _, ok := (*x).(Struct); ok {
			return hostStringer("&" + fmt.Sprint(st.toHost(c, *x, et, depth+1)))
		}
		return hostStringer(fmt.Sprintf("0xc%07x", uint32(uintptrOf(x))))
	case Struct:
		var parts []string
		var stt *types.Struct
		if t != nil {
			stt, _ = t.Underlying().(*types.Struct)
		}
		for i, f := range x {
			var ft types.Type
			if stt != nil {
				ft = stt.Field(i).Type()
			}
			parts = append(parts, fmt.Sprint(st.toHost(c, f, ft, depth+1)))
		}
		return hostStringer("{" + strings.Join(parts, " ") + "}")
	case Array:
		out := make([]interface{}, len(x))
		for i, e := range x {
			out[i] = st.toHost(c, e, nil, depth+1)
		}
		return out
	case *RType:
		return hostStringer(rtypeString(x.T))
	case RValue:
		if !x.valid() {
			return hostStringer("<invalid reflect.Value>")
		}
		return st.toHost(c, x.get(), x.T, depth+1)
	case *ssa.Function, *Closure:
		return hostStringer("func")
	case *Chan:
		return hostStringer("chan")
	}
	return hostStringer(showValue(v))
}

var ptrIDs = map[*Value]int{}

func uintptrOf(p *Value) int {
	return 0x1000
}

// ---------- deep equality

func (st *State) deepEq(a, b Value, depth int) *Term {
	if depth > 40 {
		panic(fuelErr{"deepEq recursion"})
	}
	switch x := a.(type) {
	case nil:
		return BoolC(b == nil || isNilFunc(b))
	case *Term:
		y, ok := b.(*Term)
		if !ok || y.Sort != x.Sort {
			return FalseT
		}
		if x.Sort.K == SFP {
			return FpCmp(OFpEq, x, y)
		}
		return Eq(x, y)
	case string, *SymStr:
		switch b.(type) {
		case string, *SymStr:
			return eqValues(nil, a, b)
		}
		return FalseT
	case Iface:
		y, ok := b.(Iface)
		if !ok {
			return FalseT
		}
		if x.T == nil || y.T == nil {
			return BoolC(x.T == nil && y.T == nil)
		}
		if !types.Identical(x.T, y.T) {
			return FalseT
		}
		return st.deepEq(x.V, y.V, depth+1)
	case Slice:
		y, ok := b.(Slice)
		if !ok {
			return FalseT
		}
		if x.Nil != y.Nil || len(x.A) != len(y.A) {
			return FalseT
		}
		res := TrueT
		for i := range x.A {
			res = And(res, st.deepEq(x.A[i], y.A[i], depth+1))
			if res.IsFalse() {
				return res
			}
		}
		return res
	case Array:
		y, ok := b.(Array)
		if !ok || len(x) != len(y) {
			return FalseT
		}
		res := TrueT
		for i := range x {
			res = And(res, st.deepEq(x[i], y[i], depth+1))
		}
		return res
	case Struct:
		y, ok := b.(Struct)
		if !ok || len(x) != len(y) {
			return FalseT
		}
		res := TrueT
		for i := range x {
			res = And(res, st.deepEq(x[i], y[i], depth+1))
		}
		return res
	case *Map:
		y, ok := b.(*Map)
		if !ok {
			return FalseT
		}
		if (x == nil) != (y == nil) {
			return FalseT
		}
		if x == nil {
			return TrueT
		}
		if x.Len() != y.Len() {
			return FalseT
		}
		res := TrueT
		for _, e := range x.live() {
			v, ok := y.get(st, e.K)
			if !ok {
				return FalseT
			}
			res = And(res, st.deepEq(e.V, v, depth+1))
			if res.IsFalse() {
				return res
			}
		}
		return res
	case *Value:
		y, ok := b.(*Value)
		if !ok {
			return FalseT
		}
		if x == y {
			return TrueT
		}
		if x == nil || y == nil {
			return FalseT
		}
		return st.deepEq(*x, *y, depth+1)
	case *RType:
		y, ok := b.(*RType)
		return BoolC(ok && x == y)
	case *ssa.Function, *Closure, *NativeFn:
		return BoolC(isNilFunc(a) && isNilFunc(b))
	case *Chan:
		y, ok := b.(*Chan)
		return BoolC(ok && x == y)
	}
	panic(unsupported(fmt.Sprintf("deepEq on %T", a)))
}

// ---------- timers glue

func (st *State) mkTimer(ptrT types.Type, d int64, fn Value) Value {
	tt := ptrT.Underlying().(*types.Pointer).Elem()
	p := new(Value)
	*p = zero(tt)
	var ch *Chan
	if fn == nil {
		timeT := st.eng.prog.ImportedPackage("time").Type("Time").Type()
		ch = st.newChan(1, timeT)
		(*p).(Struct)[0] = ch
	}
	tm := st.newTimer(d, ch, fn)
	st.timerByPtr[p] = tm
	return p
}

func (st *State) timerOf(p *Value) *Timer {
	tm := st.timerByPtr[p]
	if tm == nil {
		panic(goPanic{mkRuntimeError("time: Stop/Reset called on uninitialized Timer")})
	}
	return tm
}

var _ = sort.Strings

// ---------- strings.Builder (its real code uses unsafe)

func sbBuf(p *Value) *Value {
	if p == nil {
		panic(goPanic{mkRuntimeError("invalid memory address or nil pointer dereference")})
	}
	s := (*p).(Struct)
	return &s[1]
}

func sbAppend(st *State, p *Value, s string) {
	cell := sbBuf(p)
	cur := (*cell).(Slice)
	out := append([]Value{}, cur.A...)
	for i := 0; i < len(s); i++ {
		out = append(out, BVC(8, uint64(s[i])))
	}
	*cell = Slice{A: out}
}

func init() {
	in := func(name string, f intrinsic) { intrinsics[name] = f }
	in("internal/abi.NoEscape", func(st *State, c *frame, fn *ssa.Function, a []Value) Value { return a[0] })
	in("(*strings.Builder).WriteString", func(st *State, c *frame, fn *ssa.Function, a []Value) Value {
		s := st.concStrV(a[1])
		sbAppend(st, a[0].(*Value), s)
		return Tuple{BVC(64, uint64(len(s))), Iface{}}
	})
	in("(*strings.Builder).WriteByte", func(st *State, c *frame, fn *ssa.Function, a []Value) Value {
		sbAppend(st, a[0].(*Value), string([]byte{byte(st.concretise(a[1].(*Term), "byte"))}))
		return Iface{}
	})
	in("(*strings.Builder).WriteRune", func(st *State, c *frame, fn *ssa.Function, a []Value) Value {
		s := string(rune(int32(st.concretise(a[1].(*Term), "rune"))))
		sbAppend(st, a[0].(*Value), s)
		return Tuple{BVC(64, uint64(len(s))), Iface{}}
	})
	in("(*strings.Builder).Write", func(st *State, c *frame, fn *ssa.Function, a []Value) Value {
		b := a[1].(Slice)
		bs := make([]byte, len(b.A))
		for i, e := range b.A {
			bs[i] = byte(st.concretise(e.(*Term), "byte"))
		}
		sbAppend(st, a[0].(*Value), string(bs))
		return Tuple{BVC(64, uint64(len(bs))), Iface{}}
	})
	in("(*strings.Builder).String", func(st *State, c *frame, fn *ssa.Function, a []Value) Value {
		cur := (*sbBuf(a[0].(*Value))).(Slice)
		bs := make([]byte, len(cur.A))
		for i, e := range cur.A {
			bs[i] = byte(st.concretise(e.(*Term), "byte"))
		}
		return string(bs)
	})
	in("(*strings.Builder).Len", func(st *State, c *frame, fn *ssa.Function, a []Value) Value {
		return BVC(64, uint64(len((*sbBuf(a[0].(*Value))).(Slice).A)))
	})
	in("(*strings.Builder).Reset", func(st *State, c *frame, fn *ssa.Function, a []Value) Value {
		*sbBuf(a[0].(*Value)) = Slice{Nil: true}
		return nil
	})
	in("(*strings.Builder).Grow", func(st *State, c *frame, fn *ssa.Function, a []Value) Value { return nil })
}

func init() {
	in := func(name string, f intrinsic) { intrinsics[name] = f }
	in("bytes.Equal", func(st *State, c *frame, fn *ssa.Function, a []Value) Value {
		x, y := a[0].(Slice), a[1].(Slice)
		if len(x.A) != len(y.A) {
			return FalseT
		}
		res := TrueT
		for i := range x.A {
			res = And(res, Eq(x.A[i].(*Term), y.A[i].(*Term)))
		}
		return res
	})
	in("bytes.Compare", func(st *State, c *frame, fn *ssa.Function, a []Value) Value {
		x, y := a[0].(Slice), a[1].(Slice)
		for i := 0; i < len(x.A) && i < len(y.A); i++ {
			xi, yi := x.A[i].(*Term), y.A[i].(*Term)
			if st.decide(BvCmp(OBvUlt, xi, yi)) {
				return BVC(64, ^uint64(0))
			}
			if st.decide(BvCmp(OBvUlt, yi, xi)) {
				return BVC(64, 1)
			}
		}
		switch {
		case len(x.A) < len(y.A):
			return BVC(64, ^uint64(0))
		case len(x.A) > len(y.A):
			return BVC(64, 1)
		}
		return BVC(64, 0)
	})
}
