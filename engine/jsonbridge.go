package main

// JSON bridge: encoding/json is not interpreted. Marshal converts an interpreter
// value to real JSON bytes with the host encoder; symbolic leaves are written as
// placeholder strings and substituted back by Unmarshal, so that data stays
// symbolic across a marshal / unmarshal pair (as between a federated service and
// the gateway, or a client envelope and the server). Struct tags, omitempty,
// embedded structs, json.RawMessage, custom MarshalJSON / MarshalText /
// UnmarshalJSON / UnmarshalText methods (interpreted) are honoured.

import (
	"bytes"
	"encoding/base64"
	"encoding/json"
	"fmt"
	"go/token"
	"go/types"
	"reflect"
	"sort"
	"strconv"
	"strings"

	"golang.org/x/tools/go/ssa"
)

type jsonSym struct {
	term   *Term
	str    *SymStr
	signed bool
}

const jsonSymPrefix = "\x00sym:"

func (st *State) jsonPlaceholder(js jsonSym) string {
	st.jsonSyms = append(st.jsonSyms, js)
	return jsonSymPrefix + strconv.Itoa(len(st.jsonSyms)-1)
}

func (st *State) jsonLookup(s string) (jsonSym, bool) {
	if !strings.HasPrefix(s, jsonSymPrefix) {
		return jsonSym{}, false
	}
	n, err := strconv.Atoi(s[len(jsonSymPrefix):])
	if err != nil || n < 0 || n >= len(st.jsonSyms) {
		return jsonSym{}, false
	}
	return st.jsonSyms[n], true
}

func bytesOf(st *State, s Slice) []byte {
	out := make([]byte, len(s.A))
	for i, e := range s.A {
		out[i] = byte(st.concretise(e.(*Term), "byte"))
	}
	return out
}

func bytesValue(b []byte) Slice {
	out := make([]Value, len(b))
	for i, c := range b {
		out[i] = BVC(8, uint64(c))
	}
	return Slice{A: out}
}

func isNamed(t types.Type, pkg, name string) bool {
	n, ok := t.(*types.Named)
	return ok && n.Obj().Pkg() != nil && n.Obj().Pkg().Path() == pkg && n.Obj().Name() == name
}

type jsonTag struct {
	name      string
	omitEmpty bool
	skip      bool
	asString  bool
}

func parseJSONTag(f *types.Var, tag string) jsonTag {
	t := reflect.StructTag(tag).Get("json")
	jt := jsonTag{name: f.Name()}
	if t == "-" {
		jt.skip = true
		return jt
	}
	parts := strings.Split(t, ",")
	if parts[0] != "" {
		jt.name = parts[0]
	}
	for _, p := range parts[1:] {
		switch p {
		case "omitempty":
			jt.omitEmpty = true
		case "string":
			jt.asString = true
		}
	}
	return jt
}

func (st *State) findMethod(t types.Type, name string) *ssa.Function {
	for _, tt := range []types.Type{t, types.NewPointer(t)} {
		ms := st.eng.prog.MethodSets.MethodSet(tt)
		for i := 0; i < ms.Len(); i++ {
			if ms.At(i).Obj().Name() == name {
				if f := st.eng.prog.MethodValue(ms.At(i)); f != nil {
					return f
				}
			}
		}
	}
	return nil
}

func jsonEmpty(v Value) bool {
	switch x := v.(type) {
	case *Term:
		return x.IsConst() && x.Val == 0
	case string:
		return x == ""
	case Slice:
		return len(x.A) == 0
	case *Map:
		return x.Len() == 0
	case *Value:
		return x == nil
	case Iface:
		return x.T == nil
	}
	return false
}

// orderedObj keeps struct field order in the encoded text.
type orderedObj struct {
	keys []string
	vals []interface{}
}

func (o orderedObj) MarshalJSON() ([]byte, error) {
	var buf bytes.Buffer
	buf.WriteByte('{')
	for i, k := range o.keys {
		if i > 0 {
			buf.WriteByte(',')
		}
		kb, _ := json.Marshal(k)
		buf.Write(kb)
		buf.WriteByte(':')
		vb, err := json.Marshal(o.vals[i])
		if err != nil {
			return nil, err
		}
		buf.Write(vb)
	}
	buf.WriteByte('}')
	return buf.Bytes(), nil
}

// toJSON converts an interpreter value of static type t to a host value that
// encoding/json can encode.
func (st *State) toJSON(c *frame, v Value, t types.Type, depth int) interface{} {
	if depth > 60 {
		panic(unsupported("json: value too deep (cycle?)"))
	}
	if it, ok := v.(Iface); ok {
		if it.T == nil {
			return nil
		}
		return st.toJSON(c, it.V, it.T, depth+1)
	}
	if t != nil {
		// custom marshalers (value or pointer receiver)
		if _, isPtr := v.(*Value); !isPtr || v.(*Value) != nil {
			if m := st.findMethod(t, "MarshalJSON"); m != nil && (t.String() != "encoding/json.RawMessage") {
				recv := v
				if _, isPtrRecv := m.Signature.Recv().Type().(*types.Pointer); isPtrRecv {
					if _, already := t.Underlying().(*types.Pointer); !already {
						p := new(Value)
						*p = copyVal(v)
						recv = p
					}
				} else if pt, already := t.Underlying().(*types.Pointer); already {
					_ = pt
					recv = copyVal(*(v.(*Value)))
				}
				res := st.callFunc(c, token.NoPos, m, []Value{recv}).(Tuple)
				if e := res[1].(Iface); e.T != nil {
					panic(goPanic{e})
				}
				return json.RawMessage(bytesOf(st, res[0].(Slice)))
			}
			if m := st.findMethod(t, "MarshalText"); m != nil {
				if _, isPtrRecv := m.Signature.Recv().Type().(*types.Pointer); !isPtrRecv {
					res := st.callFunc(c, token.NoPos, m, []Value{v}).(Tuple)
					return string(bytesOf(st, res[0].(Slice)))
				}
			}
		}
	}
	switch x := v.(type) {
	case nil:
		return nil
	case *Term:
		signed := t == nil || isSigned(t)
		if !x.IsConst() {
			if x.Sort.K == SBool {
				return st.jsonPlaceholder(jsonSym{term: x})
			}
			return st.jsonPlaceholder(jsonSym{term: x, signed: signed})
		}
		switch x.Sort.K {
		case SBool:
			return x.Val == 1
		case SFP:
			return x.FVal()
		}
		if signed {
			return x.SVal()
		}
		return x.Val
	case string:
		if t != nil && isNamed(t, "encoding/json", "Number") {
			if x == "" {
				return json.Number("0")
			}
			return json.Number(x)
		}
		return x
	case *SymStr:
		return st.jsonPlaceholder(jsonSym{str: x})
	case *Value:
		if x == nil {
			return nil
		}
		var et types.Type
		if t != nil {
			if pt, ok := t.Underlying().(*types.Pointer); ok {
				et = pt.Elem()
			}
		}
		return st.toJSON(c, *x, et, depth+1)
	case Slice:
		if t != nil && isNamed(t, "encoding/json", "RawMessage") {
			if x.Nil {
				return nil
			}
			return json.RawMessage(bytesOf(st, x))
		}
		var et types.Type
		if t != nil {
			if sl, ok := t.Underlying().(*types.Slice); ok {
				et = sl.Elem()
				if b, ok := et.Underlying().(*types.Basic); ok && b.Kind() == types.Uint8 {
					if x.Nil {
						return nil
					}
					return base64.StdEncoding.EncodeToString(bytesOf(st, x))
				}
			}
		}
		if x.Nil {
			return nil
		}
		out := make([]interface{}, len(x.A))
		for i, e := range x.A {
			out[i] = st.toJSON(c, e, et, depth+1)
		}
		return out
	case Array:
		out := make([]interface{}, len(x))
		for i, e := range x {
			out[i] = st.toJSON(c, e, nil, depth+1)
		}
		return out
	case *Map:
		if x == nil {
			return nil
		}
		o := orderedObj{}
		var kt, vt types.Type
		if x.T != nil {
			kt, vt = x.T.Key(), x.T.Elem()
		}
		type kv struct {
			k string
			v interface{}
		}
		var kvs []kv
		for _, e := range x.live() {
			var ks string
			switch k := e.K.(type) {
			case string:
				ks = k
			case *SymStr:
				ks = st.concStr(k)
			default:
				hk := st.toJSON(c, e.K, kt, depth+1)
				ks = fmt.Sprint(hk)
			}
			kvs = append(kvs, kv{ks, st.toJSON(c, e.V, vt, depth+1)})
		}
		sort.Slice(kvs, func(i, j int) bool { return kvs[i].k < kvs[j].k })
		for _, p := range kvs {
			o.keys = append(o.keys, p.k)
			o.vals = append(o.vals, p.v)
		}
		return o
	case Struct:
		stt, ok := t.Underlying().(*types.Struct)
		if !ok {
			panic(unsupported("json: struct value without struct type"))
		}
		o := orderedObj{}
		st.jsonStructFields(c, x, stt, &o, depth)
		return o
	}
	panic(unsupported(fmt.Sprintf("json.Marshal of %T", v)))
}

func (st *State) jsonStructFields(c *frame, x Struct, stt *types.Struct, o *orderedObj, depth int) {
	for i := 0; i < stt.NumFields(); i++ {
		f := stt.Field(i)
		jt := parseJSONTag(f, stt.Tag(i))
		if jt.skip {
			continue
		}
		if f.Embedded() && reflect.StructTag(stt.Tag(i)).Get("json") == "" {
			// promoted fields of an embedded struct
			ft := f.Type()
			fv := x[i]
			if p, ok := fv.(*Value); ok {
				if p == nil {
					continue
				}
				fv = *p
				ft = ft.Underlying().(*types.Pointer).Elem()
			}
			if es, ok := ft.Underlying().(*types.Struct); ok {
				st.jsonStructFields(c, fv.(Struct), es, o, depth+1)
				continue
			}
		}
		if !f.Exported() {
			continue
		}
		if jt.omitEmpty && jsonEmpty(x[i]) {
			continue
		}
		o.keys = append(o.keys, jt.name)
		o.vals = append(o.vals, st.toJSON(c, x[i], f.Type(), depth+1))
	}
}

func (st *State) jsonMarshal(c *frame, v Value) ([]byte, error) {
	hv := st.toJSON(c, v, nil, 0)
	return json.Marshal(hv)
}

// ---------- decoding

func (st *State) decodeJSON(data []byte) (interface{}, error) {
	d := json.NewDecoder(bytes.NewReader(data))
	d.UseNumber()
	var hv interface{}
	if err := d.Decode(&hv); err != nil {
		return nil, err
	}
	return hv, nil
}

// genericJSON: host tree -> interpreter value of type interface{} (what
// json.Unmarshal produces for an interface{} target).
func (st *State) genericJSON(hv interface{}, useNumber bool) Value {
	switch x := hv.(type) {
	case nil:
		return Iface{}
	case bool:
		return Iface{T: types.Typ[types.Bool], V: BoolC(x)}
	case json.Number:
		if useNumber || st.jsonNumMode {
			return Iface{T: st.eng.jsonNumberType(), V: x.String()}
		}
		f, _ := x.Float64()
		return Iface{T: types.Typ[types.Float64], V: FPC64(f)}
	case string:
		if js, ok := st.jsonLookup(x); ok {
			switch {
			case js.str != nil:
				return Iface{T: types.Typ[types.String], V: js.str}
			case js.term.Sort.K == SBool:
				return Iface{T: types.Typ[types.Bool], V: js.term}
			case js.term.Sort.K == SFP:
				return Iface{T: types.Typ[types.Float64], V: FpToFp(js.term, 64)}
			default:
				return Iface{T: types.Typ[types.Float64], V: IntToFp(js.term, js.signed, 64)}
			}
		}
		return Iface{T: types.Typ[types.String], V: x}
	case []interface{}:
		out := make([]Value, len(x))
		for i, e := range x {
			out[i] = st.genericJSON(e, useNumber)
		}
		return Iface{T: st.eng.sliceOfIface, V: Slice{A: out}}
	case map[string]interface{}:
		m := newMap(st.eng.mapStringIface.Underlying().(*types.Map))
		keys := make([]string, 0, len(x))
		for k := range x {
			keys = append(keys, k)
		}
		sort.Strings(keys)
		for _, k := range keys {
			m.set(st, k, st.genericJSON(x[k], useNumber))
		}
		return Iface{T: st.eng.mapStringIface, V: m}
	}
	panic(unsupported(fmt.Sprintf("json: decoded %T", hv)))
}

type jsonErr struct{ msg string }

// assignJSON stores the decoded host value into *dst of type t.
func (st *State) assignJSON(c *frame, hv interface{}, t types.Type, dst *Value) {
	// custom unmarshalers on *T
	if _, isIface := t.Underlying().(*types.Interface); !isIface && !isNamed(t, "encoding/json", "RawMessage") {
		if m := st.findMethod(t, "UnmarshalJSON"); m != nil {
			b, _ := json.Marshal(hv)
			res := st.callFunc(c, token.NoPos, m, []Value{dst, bytesValue(b)})
			if e, ok := res.(Iface); ok && e.T != nil {
				panic(jsonErr{st.errorString(c, e)})
			}
			return
		}
		if m := st.findMethod(t, "UnmarshalText"); m != nil {
			if s, ok := hv.(string); ok {
				res := st.callFunc(c, token.NoPos, m, []Value{dst, bytesValue([]byte(s))})
				if e, ok := res.(Iface); ok && e.T != nil {
					panic(jsonErr{st.errorString(c, e)})
				}
				return
			}
		}
	}
	if hv == nil {
		switch t.Underlying().(type) {
		case *types.Pointer, *types.Map, *types.Slice, *types.Interface:
			*dst = zero(t)
		}
		return
	}
	switch u := t.Underlying().(type) {
	case *types.Interface:
		*dst = st.genericJSON(hv, false)
	case *types.Pointer:
		p := new(Value)
		*p = zero(u.Elem())
		st.assignJSON(c, hv, u.Elem(), p)
		*dst = p
	case *types.Struct:
		obj, ok := hv.(map[string]interface{})
		if !ok {
			panic(jsonErr{"json: cannot unmarshal non-object into Go struct"})
		}
		s := (*dst).(Struct)
		st.assignJSONStruct(c, obj, u, s)
	case *types.Map:
		obj, ok := hv.(map[string]interface{})
		if !ok {
			panic(jsonErr{"json: cannot unmarshal non-object into Go map"})
		}
		m, _ := (*dst).(*Map)
		if m == nil {
			m = newMap(u)
			*dst = m
		}
		keys := make([]string, 0, len(obj))
		for k := range obj {
			keys = append(keys, k)
		}
		sort.Strings(keys)
		for _, k := range keys {
			cell := new(Value)
			*cell = zero(u.Elem())
			st.assignJSON(c, obj[k], u.Elem(), cell)
			var key Value = k
			if b, ok := u.Key().Underlying().(*types.Basic); !ok || b.Info()&types.IsString == 0 {
				// non-string keys: through UnmarshalText or integer parsing
				kc := new(Value)
				*kc = zero(u.Key())
				if m := st.findMethod(u.Key(), "UnmarshalText"); m != nil {
					st.callFunc(c, token.NoPos, m, []Value{kc, bytesValue([]byte(k))})
				} else if n, err := strconv.ParseInt(k, 10, 64); err == nil {
					*kc = BVC(basicWidth(u.Key().Underlying().(*types.Basic)), uint64(n))
				}
				key = *kc
			}
			m.set(st, key, *cell)
		}
	case *types.Slice:
		if isNamed(t, "encoding/json", "RawMessage") {
			b, _ := json.Marshal(hv)
			*dst = bytesValue(b)
			return
		}
		if b, ok := u.Elem().Underlying().(*types.Basic); ok && b.Kind() == types.Uint8 {
			s, ok := hv.(string)
			if !ok {
				panic(jsonErr{"json: cannot unmarshal into []byte"})
			}
			raw, err := base64.StdEncoding.DecodeString(s)
			if err != nil {
				panic(jsonErr{err.Error()})
			}
			*dst = bytesValue(raw)
			return
		}
		l, ok := hv.([]interface{})
		if !ok {
			panic(jsonErr{"json: cannot unmarshal non-array into Go slice"})
		}
		out := make([]Value, len(l))
		for i, e := range l {
			out[i] = zero(u.Elem())
			st.assignJSON(c, e, u.Elem(), &out[i])
		}
		*dst = Slice{A: out}
	case *types.Basic:
		switch {
		case u.Info()&types.IsString != 0:
			s, ok := hv.(string)
			if !ok {
				panic(jsonErr{"json: cannot unmarshal non-string into Go string"})
			}
			if js, ok := st.jsonLookup(s); ok && js.str != nil {
				*dst = js.str
				return
			}
			*dst = s
		case u.Info()&types.IsBoolean != 0:
			switch b := hv.(type) {
			case bool:
				*dst = BoolC(b)
			case string:
				if js, ok := st.jsonLookup(b); ok && js.term != nil && js.term.Sort.K == SBool {
					*dst = js.term
					return
				}
				panic(jsonErr{"json: cannot unmarshal string into Go bool"})
			default:
				panic(jsonErr{"json: cannot unmarshal into Go bool"})
			}
		case u.Info()&types.IsInteger != 0:
			w := basicWidth(u)
			switch n := hv.(type) {
			case json.Number:
				if isSigned(t) {
					i, err := strconv.ParseInt(n.String(), 10, 64)
					if err != nil {
						panic(jsonErr{"json: cannot unmarshal number " + n.String() + " into Go integer"})
					}
					*dst = BVC(w, uint64(i))
				} else {
					i, err := strconv.ParseUint(n.String(), 10, 64)
					if err != nil {
						panic(jsonErr{"json: cannot unmarshal number " + n.String() + " into Go unsigned integer"})
					}
					*dst = BVC(w, i)
				}
			case string:
				if js, ok := st.jsonLookup(n); ok && js.term != nil && js.term.Sort.K == SBV {
					*dst = Resize(js.term, w, js.signed)
					return
				}
				panic(jsonErr{"json: cannot unmarshal string into Go integer"})
			default:
				panic(jsonErr{"json: cannot unmarshal into Go integer"})
			}
		case u.Info()&types.IsFloat != 0:
			switch n := hv.(type) {
			case json.Number:
				f, _ := n.Float64()
				*dst = fpc(basicWidth(u), f)
			case string:
				if js, ok := st.jsonLookup(n); ok && js.term != nil {
					if js.term.Sort.K == SFP {
						*dst = FpToFp(js.term, basicWidth(u))
					} else {
						*dst = IntToFp(js.term, js.signed, basicWidth(u))
					}
					return
				}
				panic(jsonErr{"json: cannot unmarshal string into Go float"})
			default:
				panic(jsonErr{"json: cannot unmarshal into Go float"})
			}
		default:
			panic(unsupported("json: basic target " + t.String()))
		}
	default:
		panic(unsupported("json: target type " + t.String()))
	}
}

func (st *State) assignJSONStruct(c *frame, obj map[string]interface{}, stt *types.Struct, s Struct) {
	for i := 0; i < stt.NumFields(); i++ {
		f := stt.Field(i)
		jt := parseJSONTag(f, stt.Tag(i))
		if jt.skip {
			continue
		}
		if f.Embedded() && reflect.StructTag(stt.Tag(i)).Get("json") == "" {
			if es, ok := f.Type().Underlying().(*types.Struct); ok {
				st.assignJSONStruct(c, obj, es, s[i].(Struct))
				continue
			}
		}
		if !f.Exported() {
			continue
		}
		var hv interface{}
		found := false
		if v, ok := obj[jt.name]; ok {
			hv, found = v, true
		} else {
			for k, v := range obj {
				if strings.EqualFold(k, jt.name) {
					hv, found = v, true
					break
				}
			}
		}
		if !found {
			continue
		}
		st.assignJSON(c, hv, f.Type(), &s[i])
	}
}

func (st *State) jsonUnmarshal(c *frame, data []byte, target Value) (res Value) {
	it, ok := target.(Iface)
	if !ok || it.T == nil {
		return st.mkError("json: Unmarshal(nil)", Iface{})
	}
	pt, ok := it.T.Underlying().(*types.Pointer)
	p, _ := it.V.(*Value)
	if !ok || p == nil {
		return st.mkError("json: Unmarshal(non-pointer "+it.T.String()+")", Iface{})
	}
	hv, err := st.decodeJSON(data)
	if err != nil {
		return st.mkError(err.Error(), Iface{})
	}
	defer func() {
		if r := recover(); r != nil {
			if je, ok := r.(jsonErr); ok {
				res = st.mkError(je.msg, Iface{})
				return
			}
			panic(r)
		}
	}()
	st.assignJSON(c, hv, pt.Elem(), p)
	return Iface{}
}

func init() {
	in := func(name string, f intrinsic) { intrinsics[name] = f }
	in("encoding/json.Marshal", func(st *State, c *frame, fn *ssa.Function, a []Value) Value {
		b, err := st.jsonMarshal(c, a[0])
		if err != nil {
			return Tuple{Slice{Nil: true}, st.mkError(err.Error(), Iface{})}
		}
		return Tuple{bytesValue(b), Iface{}}
	})
	in("encoding/json.MarshalIndent", func(st *State, c *frame, fn *ssa.Function, a []Value) Value {
		b, err := st.jsonMarshal(c, a[0])
		if err != nil {
			return Tuple{Slice{Nil: true}, st.mkError(err.Error(), Iface{})}
		}
		return Tuple{bytesValue(b), Iface{}}
	})
	in("encoding/json.Unmarshal", func(st *State, c *frame, fn *ssa.Function, a []Value) Value {
		return st.jsonUnmarshal(c, bytesOf(st, a[0].(Slice)), a[1])
	})
	in("encoding/json.NewDecoder", func(st *State, c *frame, fn *ssa.Function, a []Value) Value {
		// supported readers: *bytes.Reader, *strings.Reader, *bytes.Buffer
		r := a[0].(Iface)
		var data []byte
		switch r.T.String() {
		case "*bytes.Reader":
			s := (*(r.V.(*Value))).(Struct)
			data = bytesOf(st, s[0].(Slice))
		case "*strings.Reader":
			s := (*(r.V.(*Value))).(Struct)
			data = []byte(st.concStrV(s[0]))
		case "*bytes.Buffer":
			s := (*(r.V.(*Value))).(Struct)
			data = bytesOf(st, s[0].(Slice))
		default:
			// harness readers expose their content in a first field of type string
			if pv, ok := r.V.(*Value); ok {
				if s, ok := (*pv).(Struct); ok && len(s) > 0 {
					if _, isStr := s[0].(string); isStr {
						data = []byte(st.concStrV(s[0]))
						break
					}
				}
			}
			panic(unsupported("json.NewDecoder on " + r.T.String()))
		}
		p := new(Value)
		*p = zero(fn.Signature.Results().At(0).Type().Underlying().(*types.Pointer).Elem())
		st.jsonDecoders[p] = &data
		return p
	})
	in("(*encoding/json.Decoder).UseNumber", func(st *State, c *frame, fn *ssa.Function, a []Value) Value {
		if st.jsonUseNumber == nil {
			st.jsonUseNumber = map[*Value]bool{}
		}
		st.jsonUseNumber[a[0].(*Value)] = true
		return nil
	})
	in("encoding/json.Number.String", func(st *State, c *frame, fn *ssa.Function, a []Value) Value { return a[0] })
	in("encoding/json.Number.Int64", func(st *State, c *frame, fn *ssa.Function, a []Value) Value {
		v, err := json.Number(st.concStrV(a[0])).Int64()
		if err != nil {
			return Tuple{BVC(64, 0), st.mkError(err.Error(), Iface{})}
		}
		return Tuple{BVC(64, uint64(v)), Iface{}}
	})
	in("encoding/json.Number.Float64", func(st *State, c *frame, fn *ssa.Function, a []Value) Value {
		v, err := json.Number(st.concStrV(a[0])).Float64()
		if err != nil {
			return Tuple{FPC64(0), st.mkError(err.Error(), Iface{})}
		}
		return Tuple{FPC64(v), Iface{}}
	})
	in("(*encoding/json.Decoder).Decode", func(st *State, c *frame, fn *ssa.Function, a []Value) Value {
		data := st.jsonDecoders[a[0].(*Value)]
		if data == nil {
			panic(unsupported("json.Decoder without source"))
		}
		if len(bytes.TrimSpace(*data)) == 0 {
			return st.mkError("EOF", Iface{})
		}
		d := json.NewDecoder(bytes.NewReader(*data))
		d.UseNumber()
		var raw json.RawMessage
		if err := d.Decode(&raw); err != nil {
			return st.mkError(err.Error(), Iface{})
		}
		rest, _ := readAll(d.Buffered())
		*data = rest
		if st.jsonUseNumber[a[0].(*Value)] {
			st.jsonNumMode = true
			defer func() { st.jsonNumMode = false }()
		}
		return st.jsonUnmarshal(c, raw, a[1])
	})
}

func readAll(r interface{ Read([]byte) (int, error) }) ([]byte, error) {
	var out []byte
	buf := make([]byte, 4096)
	for {
		n, err := r.Read(buf)
		out = append(out, buf[:n]...)
		if err != nil {
			return out, nil
		}
	}
}

func (eng *Engine) jsonNumberType() types.Type {
	if eng.jsonNumT == nil {
		eng.jsonNumT = eng.prog.ImportedPackage("encoding/json").Type("Number").Type()
	}
	return eng.jsonNumT
}
