package main

import (
	"crypto/sha256"
	"encoding/hex"
	"encoding/json"
	"flag"
	"fmt"
	"os"
	"os/exec"
	"path/filepath"
	"runtime"
	"runtime/debug"
	"runtime/pprof"
	"sort"
	"strconv"
	"strings"
	"time"

	"golang.org/x/tools/go/ssa"
)

func usage() {
	fmt.Fprintln(os.Stderr, "usage: symgo check <spec.json> <quick|thorough> | symgo replay <replay.json> | symgo run <spec.json> <entry>")
	os.Exit(2)
}

func main() {
	if len(os.Args) < 2 {
		usage()
	}
	debug.SetGCPercent(400)
	if f := os.Getenv("VERIF_SMTLOG"); f != "" {
		smtLog, _ = os.Create(f)
	}
	if pf := os.Getenv("VERIF_PROF"); pf != "" {
		f, _ := os.Create(pf)
		pprof.StartCPUProfile(f)
		defer pprof.StopCPUProfile()
	}
	switch os.Args[1] {
	case "check":
		code := cmdCheck(os.Args[2:])
		pprof.StopCPUProfile()
		os.Exit(code)
	case "check-noprof":
		os.Exit(cmdCheck(os.Args[2:]))
	case "replay":
		os.Exit(cmdReplay(os.Args[2:]))
	default:
		usage()
	}
}

func defaultConfig() Config {
	w := runtime.NumCPU()
	if s := os.Getenv("VERIF_WORKERS"); s != "" {
		if n, err := strconv.Atoi(s); err == nil && n > 0 {
			w = n
		}
	}
	return Config{
		Workers: w, Fuel: 3_000_000, MaxDepth: 400, MaxDecisions: 4000, ConcCap: 64,
		SolverTimeoutMs: 20000, XCheck: 50, Preemptions: 2, MaxThreads: 24,
	}
}

func loadSpec(path string) (*CheckSpec, error) {
	b, err := os.ReadFile(path)
	if err != nil {
		return nil, err
	}
	var spec CheckSpec
	if err := json.Unmarshal(b, &spec); err != nil {
		return nil, fmt.Errorf("%s: %v", path, err)
	}
	return &spec, nil
}

func hasTier(e EntrySpec, tier string) bool {
	if len(e.Tiers) == 0 {
		return true
	}
	for _, t := range e.Tiers {
		if t == tier {
			return true
		}
	}
	return false
}

type replayFile struct {
	Property  string      `json:"property"`
	Spec      string      `json:"spec"`
	Entry     string      `json:"entry"`
	Pkg       string      `json:"pkg"`
	Label     string      `json:"label"`
	Class     string      `json:"class,omitempty"`
	Message   string      `json:"message,omitempty"`
	Values    []NondetRec `json:"values"`
	Decisions []int32     `json:"decisions"`
	Choices   [][2]int32  `json:"choices,omitempty"`
	Schedule  []string    `json:"schedule,omitempty"`
	Trace     []string    `json:"trace,omitempty"`
	Confirmed string      `json:"confirmed_by"`
	RepoHead  string      `json:"repo_head"`
	Preempt   int         `json:"preemptions"`
	NoTimers  bool        `json:"no_timers"`
}

func cmdCheck(args []string) int {
	fs := flag.NewFlagSet("check", flag.ExitOnError)
	only := fs.String("entry", "", "run only this entry")
	trace := fs.Bool("trace", false, "trace calls")
	noNative := fs.Bool("no-native", false, "skip native replays")
	fs.Parse(args)
	if fs.NArg() < 2 {
		usage()
	}
	specPath, tier := fs.Arg(0), fs.Arg(1)
	t0 := time.Now()
	spec, err := loadSpec(specPath)
	if err != nil {
		fmt.Fprintln(os.Stderr, err)
		return 2
	}
	vd := verifDir()
	eng := &Engine{cfg: defaultConfig(), property: spec.Property, trace: *trace}
	eng.known = loadKnown(filepath.Join(vd, "known_findings.json"))
	seed := 0
	if s := os.Getenv("VERIF_SEED"); s != "" {
		seed, _ = strconv.Atoi(s)
	}
	if err := eng.load(spec); err != nil {
		fmt.Fprintf(os.Stderr, "BROKEN property=%s: cannot load /repo with harness overlay: %v\n", spec.Property, err)
		writeBrokenEvidence(vd, spec, tier, seed, time.Since(t0).Seconds(), err.Error())
		return 2
	}
	loadS := time.Since(t0).Seconds()
	fmt.Printf("[%s] loaded %d packages, SSA built in %.1fs\n", spec.Property, len(eng.pkgs), loadS)

	var all []*EntryStats
	exit := 0
	nViol := 0
	var knownLines []string
	var problems []string
	nativeValidated := 0
	var replaySamples []string
	for _, e := range spec.Entries {
		if !hasTier(e, tier) {
			continue
		}
		if *only != "" && e.Name != *only {
			continue
		}
		fn, err := eng.findEntry(e)
		if err != nil {
			fmt.Fprintf(os.Stderr, "BROKEN: %v\n", err)
			return 2
		}
		cfg := defaultConfig()
		cfg.Preemptions = e.Preemptions
		if e.MaxThreads > 0 {
			cfg.MaxThreads = e.MaxThreads
		}
		cfg.UnstableSort = e.UnstableSort
		if e.Fuel > 0 {
			cfg.Fuel = e.Fuel
		}
		if e.MaxDecisions > 0 {
			cfg.MaxDecisions = e.MaxDecisions
		}
		cfg.NoTimers = e.NoTimers
		cfg.TimerHorizonNs = int64(e.TimerHorizonS) * 1e9
		cfg.RaceCheck = e.RaceCheck
		cfg.NoStubs = e.NoStubs
		cfg.NoStateHash = e.NoStateHash || os.Getenv("VERIF_NO_STATE_HASH") != ""
		cfg.StopOnViolation = e.Witness
		eng.cfg = cfg
		timeout := 600
		if e.TimeoutS > 0 {
			timeout = e.TimeoutS
		}
		if c := os.Getenv("VERIF_TIME_CAP_S"); c != "" { // calibration runs only
			if n, err := strconv.Atoi(c); err == nil && n > 0 && n < timeout {
				timeout = n
			}
		}
		es := eng.explore(fn, e.MaxPaths, time.Now().Add(time.Duration(timeout)*time.Second))
		all = append(all, es)
		fmt.Printf("[%s] %s: paths=%d completed=%d pruned=%d infeasible=%d decisions=%d queries=%d (sat %d unsat %d unknown %d cachehits %d) solver=%.1fs wall=%.1fs violations=%d\n",
			spec.Property, e.Name, es.Paths, es.Completed, es.Pruned, es.Infeasible, es.Decisions, es.Solver.Queries, es.Solver.Sat, es.Solver.Unsat, es.Solver.Unknown, es.Solver.CacheHits, es.Solver.Seconds, es.Wall, len(es.Violations))
		if e.Witness {
			found := false
			for _, v := range es.Violations {
				if v.Label == "reachability" {
					found = true
				}
			}
			if !found {
				for _, v := range es.Violations {
					fmt.Printf("  witness %s: other violation label=%s %s\n", e.Name, v.Label, v.Msg)
				}
				problems = append(problems, fmt.Sprintf("witness %s: reachability assertion was not violated (harness vacuous)", e.Name))
			}
			continue
		}
		for _, m := range e.Mandatory {
			if strings.HasPrefix(m, "cover:") {
				if !es.Covers[strings.TrimPrefix(m, "cover:")] {
					problems = append(problems, fmt.Sprintf("%s: mandatory cover label %q not reached", e.Name, m))
				}
			} else if es.Asserts[m] == 0 {
				problems = append(problems, fmt.Sprintf("%s: mandatory assertion %q not reached", e.Name, m))
			}
		}
		for _, inc := range es.Inconclusive {
			problems = append(problems, e.Name+": "+inc)
		}
		if es.XDisagree > 0 {
			problems = append(problems, fmt.Sprintf("%s: %d solver cross-check disagreements", e.Name, es.XDisagree))
		}
		for r := range es.Races {
			es.Violations = append(es.Violations, &Violation{Entry: e.Name, Label: "data-race", Class: r, Msg: r})
		}
		for _, v := range es.Violations {
			rf := &replayFile{Property: spec.Property, Spec: specPath, Entry: e.Name, Pkg: e.Pkg, Label: v.Label, Class: v.Class, Message: v.Msg,
				Values: v.Values, Decisions: v.Decisions, Choices: v.Choices, Schedule: v.Schedule, Trace: v.Trace, RepoHead: repoHead(), Preempt: e.Preemptions, NoTimers: e.NoTimers}
			// confirm
			conf := "unconfirmed"
			if v.Label != "data-race" {
				if ok, how := eng.confirm(spec, e, fn, rf, *noNative); ok {
					conf = how
				} else {
					conf = "NOT-REPRODUCED: " + how
				}
			} else {
				conf = "symgo-happens-before"
			}
			rf.Confirmed = conf
			name := fmt.Sprintf("%s-%s-%s.json", spec.Property, e.Name, sanitize(v.Label+"-"+v.Class))
			rpath := filepath.Join(vd, "replays", name)
			os.MkdirAll(filepath.Dir(rpath), 0o755)
			b, _ := json.MarshalIndent(rf, "", " ")
			os.WriteFile(rpath, b, 0o644)
			if strings.HasPrefix(conf, "NOT-REPRODUCED") {
				problems = append(problems, fmt.Sprintf("%s: counterexample for %q did not reproduce (%s) — engine/stub mismatch, see %s", e.Name, v.Label, conf, rpath))
				continue
			}
			if k := eng.knownFor(v); k != nil {
				v.Known = true
				line := fmt.Sprintf("KNOWN-FINDING: property=%s %s [%s/%s/%s]", spec.Property, k.What, v.Entry, v.Label, v.Class)
				knownLines = append(knownLines, line)
				fmt.Println(line)
				continue
			}
			nViol++
			exit = 1
			fmt.Printf("VIOLATION property=%s replay=%s\n", spec.Property, rpath)
			fmt.Printf("  entry=%s label=%s class=%s confirmed_by=%s\n  %s\n", v.Entry, v.Label, v.Class, conf, v.Msg)
			for _, nv := range v.Values {
				fmt.Printf("    %s = %s\n", nv.Name, nv.Val)
			}
			if len(replaySamples) < 5 {
				replaySamples = append(replaySamples, rpath)
			}
		}
		// differential validation of sampled passing paths against the native build
		if !*noNative && exit == 0 && os.Getenv("VERIF_NO_NATIVE") == "" {
			n, perr := eng.nativeValidate(spec, e, es)
			nativeValidated += n
			if perr != "" {
				problems = append(problems, e.Name+": "+perr)
			}
		}
	}
	wall := time.Since(t0).Seconds()
	writeEvidence(vd, spec, tier, seed, wall, loadS, all, nViol, knownLines, problems, nativeValidated)
	if len(problems) > 0 {
		for _, p := range problems {
			fmt.Printf("INCONCLUSIVE property=%s %s\n", spec.Property, p)
		}
		if exit == 0 {
			exit = 2
		}
	}
	if exit == 0 {
		fmt.Printf("PASS property=%s tier=%s wall=%.1fs\n", spec.Property, tier, wall)
	}
	return exit
}

func sanitize(s string) string {
	var sb strings.Builder
	for _, c := range s {
		if (c >= 'a' && c <= 'z') || (c >= 'A' && c <= 'Z') || (c >= '0' && c <= '9') || c == '-' || c == '_' {
			sb.WriteRune(c)
		} else {
			sb.WriteRune('_')
		}
	}
	out := sb.String()
	if len(out) > 80 {
		out = out[:80]
	}
	return strings.TrimRight(out, "-_")
}

func repoHead() string {
	out, err := exec.Command("git", "-C", repoDir, "rev-parse", "HEAD").Output()
	if err != nil {
		return ""
	}
	return strings.TrimSpace(string(out))
}

// confirm replays a counterexample: concretely in the interpreter, and natively
// when the violation does not depend on a schedule.
func (eng *Engine) confirm(spec *CheckSpec, e EntrySpec, fn *ssa.Function, rf *replayFile, noNative bool) (bool, string) {
	ps := NewPathSolver(eng.cfg.SolverTimeoutMs, 0)
	defer ps.Close()
	res := eng.replayConcrete(ps, fn, rf)
	got := false
	for _, v := range res.Violations {
		if v.Label == rf.Label {
			got = true
		}
	}
	if !got {
		return false, "symgo concrete replay gave " + res.Status + " " + res.Msg
	}
	if len(rf.Schedule) > 0 || noNative || e.NoNative || e.UnstableSort || rf.Label == "no-deadlock" || os.Getenv("VERIF_NO_NATIVE") != "" {
		return true, "symgo-concrete"
	}
	conc := map[string]string{}
	for _, v := range rf.Values {
		conc[v.Name] = v.Val
	}
	results, out, err := eng.nativeRun(spec, e, []map[string]string{conc})
	if err != nil {
		return false, "native replay could not run: " + err.Error() + "\n" + out
	}
	if len(results) == 1 && results[0] != "ok" {
		return true, "native-go-test (" + results[0] + ")"
	}
	return false, "native replay did not fail"
}

// replayConcrete re-executes the violating path with every nondet fixed to the
// model's value; in concrete mode branches fold to constants, so only choice
// (shape / select / scheduler) decisions remain and are taken from the record.
func (eng *Engine) replayConcrete(ps *PathSolver, fn *ssa.Function, rf *replayFile) *PathResult {
	conc := map[string]string{}
	for _, v := range rf.Values {
		conc[v.Name] = v.Val
	}
	var prefix []Dec
	for _, c := range rf.Choices {
		prefix = append(prefix, Dec{Alt: c[0], N: c[1], Kind: dChoice})
	}
	return eng.runPath(ps, fn, prefix, conc)
}

func writeBrokenEvidence(vd string, spec *CheckSpec, tier string, seed int, wall float64, msg string) {
	ev := map[string]interface{}{
		"property_id": spec.Property, "tier": tier, "seed": seed, "level": "model_checking",
		"coverage": map[string]interface{}{"evaluations": 0, "distinct_nontrivial": 0, "exhaustive": false, "explanation": "check broken: " + msg},
		"wall_s":   wall, "violations": 0, "assumptions": []string{"BROKEN: " + msg},
	}
	b, _ := json.MarshalIndent(ev, "", " ")
	if os.Getenv("VERIF_NO_EVIDENCE") != "" { // trial runs against seeded changes must not overwrite evidence
		return
	}
	os.MkdirAll(filepath.Join(vd, "evidence"), 0o755)
	os.WriteFile(filepath.Join(vd, "evidence", spec.Property+".json"), b, 0o644)
}

func fileHash(path string) string {
	b, err := os.ReadFile(path)
	if err != nil {
		return ""
	}
	h := sha256.Sum256(b)
	return hex.EncodeToString(h[:8])
}

func writeEvidence(vd string, spec *CheckSpec, tier string, seed int, wall, loadS float64, all []*EntryStats, nViol int, known, problems []string, nativeValidated int) {
	states, trans, evals, nontriv := 0, 0, 0, 0
	var samples []interface{}
	funcs := map[string]bool{}
	intr := map[string]bool{}
	var perEntry []map[string]interface{}
	var solver SolverStats
	exhaustive := len(problems) == 0
	for _, es := range all {
		states += es.Completed
		trans += es.Decisions
		evals += es.Paths
		nontriv += es.Nontrivial
		solver.add(&es.Solver)
		for _, s := range es.Samples {
			if len(samples) < 6 {
				samples = append(samples, s)
			}
		}
		for f := range es.Funcs {
			funcs[f] = true
		}
		for f := range es.Intr {
			intr[f] = true
		}
		perEntry = append(perEntry, map[string]interface{}{
			"entry": es.Entry, "paths_started": es.Paths, "paths_completed": es.Completed, "paths_infeasible": es.Infeasible, "paths_pruned_state_seen": es.Pruned,
			"paths_with_symbolic_pc": es.SymbolicPath, "decisions": es.Decisions, "forks": es.Forks,
			"solver_queries": es.Solver.Queries, "sat": es.Solver.Sat, "unsat": es.Solver.Unsat, "unknown": es.Solver.Unknown,
			"model_cache_hits": es.Solver.CacheHits, "solver_s": round3(es.Solver.Seconds), "wall_s": round3(es.Wall),
			"cover_labels": sortedKeys(es.Covers), "assert_labels_reached": es.Asserts, "inconclusive": es.Inconclusive,
			"violations": len(es.Violations), "aborted": es.Aborted,
		})
	}
	if len(samples) == 0 {
		samples = append(samples, map[string]interface{}{"note": "no path completed"})
	}
	// hashes of the anchored repo files that were executed
	fileSet := map[string]bool{}
	for f := range funcs {
		_ = f
	}
	var fnames []string
	for f := range funcs {
		if !strings.Contains(f, "Verif") && !strings.Contains(f, "zzverif") {
			fnames = append(fnames, f)
		}
	}
	sort.Strings(fnames)
	_ = fileSet
	var bounds []map[string]string
	for _, e := range spec.Entries {
		if hasTier(e, tier) && !e.Witness {
			bounds = append(bounds, map[string]string{"entry": e.Name, "bounds": e.Bounds, "preemptions": fmt.Sprint(e.Preemptions), "max_paths": fmt.Sprint(e.MaxPaths)})
		}
	}
	cov := map[string]interface{}{
		"states":                        states,
		"transitions":                   trans,
		"traces_validated_against_impl": nativeValidated,
		"samples":                       samples,
		"evaluations":                   evals,
		"distinct_nontrivial":           nontriv,
		"rule":                          "a case is one execution of a harness entry through the real code's SSA along one decision list (branch outcomes on symbolic conditions decided by the solver, concretisations, shape choices, scheduler choices); evaluations = executions started (including those cut because their global state had already been explored, or infeasible ones); a completed execution is non-trivial when at least one of its decisions was a genuine fork (both outcomes feasible / several schedules possible); decision lists are distinct by construction. states = completed executions; transitions = decisions taken; SMT queries are reported under coverage.solver",
		"exhaustive":                    exhaustive,
		"functions_encoded":             fnames,
		"intrinsics_and_stubs_hit":      sortedKeys(intr),
		"stubs":                         spec.Stubs,
		"bounds":                        bounds,
		"out_of_scope":                  spec.OutOfScope,
		"per_entry":                     perEntry,
		"solver": map[string]interface{}{
			"queries": solver.Queries, "sat": solver.Sat, "unsat": solver.Unsat, "unknown": solver.Unknown, "errors": solver.Errors,
			"seconds": round3(solver.Seconds), "by_solver": solver.ByKind, "model_cache_hits": solver.CacheHits,
		},
		"load_and_ssa_build_s": round3(loadS),
		"repo_head":            repoHead(),
		"known_findings":       known,
		"inconclusive":         problems,
		"explanation":          explanationFor(solver.Queries, solver.CacheHits),
	}
	ev := map[string]interface{}{
		"property_id": spec.Property, "tier": tier, "seed": seed, "level": "model_checking",
		"coverage": cov, "assumptions": append(append([]string{}, spec.Assumptions...), "environment models (intrinsics) listed under coverage.intrinsics_and_stubs_hit are trusted", "go/packages + go/ssa lowering and the SMT solvers (z3 4.8.12, cvc5 1.0) are trusted"),
		"wall_s": round3(wall), "violations": nViol,
	}
	b, _ := json.MarshalIndent(ev, "", " ")
	if os.Getenv("VERIF_NO_EVIDENCE") != "" { // trial runs against seeded changes must not overwrite evidence
		return
	}
	os.MkdirAll(filepath.Join(vd, "evidence"), 0o755)
	os.WriteFile(filepath.Join(vd, "evidence", spec.Property+".json"), b, 0o644)
}

func round3(f float64) float64 { return float64(int(f*1000)) / 1000 }

func cmdReplay(args []string) int {
	if len(args) < 1 {
		usage()
	}
	b, err := os.ReadFile(args[0])
	if err != nil {
		fmt.Fprintln(os.Stderr, err)
		return 2
	}
	var rf replayFile
	if err := json.Unmarshal(b, &rf); err != nil {
		fmt.Fprintln(os.Stderr, err)
		return 2
	}
	spec, err := loadSpec(rf.Spec)
	if err != nil {
		fmt.Fprintln(os.Stderr, err)
		return 2
	}
	eng := &Engine{cfg: defaultConfig(), property: spec.Property}
	if err := eng.load(spec); err != nil {
		fmt.Fprintln(os.Stderr, err)
		return 2
	}
	var es EntrySpec
	for _, e := range spec.Entries {
		if e.Name == rf.Entry {
			es = e
		}
	}
	fn, err := eng.findEntry(es)
	if err != nil {
		fmt.Fprintln(os.Stderr, err)
		return 2
	}
	eng.cfg.Preemptions = rf.Preempt
	eng.cfg.NoTimers = rf.NoTimers
	ps := NewPathSolver(eng.cfg.SolverTimeoutMs, 0)
	defer ps.Close()
	res := eng.replayConcrete(ps, fn, &rf)
	fmt.Printf("replay of %s/%s: status=%s %s\n", rf.Entry, rf.Label, res.Status, res.Msg)
	for _, v := range res.Violations {
		fmt.Printf("  violated: %s %s %s\n", v.Label, v.Class, v.Msg)
		for _, s := range v.Schedule {
			fmt.Printf("    sched -> %s\n", s)
		}
		for _, s := range v.Trace {
			fmt.Printf("    trace: %s\n", s)
		}
		if v.Label == rf.Label {
			fmt.Printf("VIOLATION property=%s replay=%s\n", rf.Property, args[0])
			return 1
		}
	}
	return 0
}

func explanationFor(queries, cacheHits int) string {
	base := "bounded symbolic execution of the real code (go/ssa of /repo's working tree): every branch, assertion and scheduling point inside the stated bounds is explored; nothing is claimed outside them. "
	if queries+cacheHits == 0 {
		return base + "In this run every branch condition was concrete along every explored execution (inputs are structural choices and schedules, all of which are enumerated by the engine's decision tree); no SMT query was needed, so the verdict rests on exhaustive exploration of that tree, not on a solver."
	}
	return base + "Conditions over symbolic inputs were decided by the SMT solvers (counts under coverage.solver); structural choices and schedules are enumerated by the engine's decision tree."
}
