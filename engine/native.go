package main

// Native replay: solver-produced inputs are run against the really compiled
// code with `go test -overlay` (harness + nondet package + a generated test
// file are overlaid; nothing is written to /repo).

import (
	"encoding/json"
	"fmt"
	"os"
	"os/exec"
	"path/filepath"
	"regexp"
	"strconv"
	"strings"
	"time"
)

const thunderMod = "github.com/samsarahq/thunder"

func scratchDir() (string, error) {
	base := os.Getenv("VERIF_SCRATCH")
	if base == "" {
		base = filepath.Join(os.TempDir(), "symgo-scratch")
	}
	os.MkdirAll(base, 0o755)
	return os.MkdirTemp(base, "replay")
}

var caseRe = regexp.MustCompile(`VERIF-CASE (\d+): (.*)`)

func (eng *Engine) nativeRun(spec *CheckSpec, e EntrySpec, cases []map[string]string) ([]string, string, error) {
	dir, err := scratchDir()
	if err != nil {
		return nil, "", err
	}
	defer os.RemoveAll(dir)
	vd := verifDir()
	pkg := eng.pkgs[e.Pkg]
	if pkg == nil {
		return nil, "", fmt.Errorf("package %s not loaded", e.Pkg)
	}
	rel := strings.TrimPrefix(strings.TrimPrefix(e.Pkg, thunderMod), "/")
	replace := map[string]string{}
	replace[filepath.Join(repoDir, "internal/zzverif/nondet/nondet.go")] = filepath.Join(vd, "nondet/nondet.go")
	for dst, src := range spec.Overlay {
		replace[filepath.Join(repoDir, dst)] = filepath.Join(vd, src)
	}
	testSrc := fmt.Sprintf(`//go:build verif
// +build verif

package %s

import (
	"testing"

	"%s"
)

func TestVerifReplay(t *testing.T) { nondet.RunReplays(%s) }
`, pkg.Pkg.Name(), nondetPkg, e.Name)
	testFile := filepath.Join(dir, "zz_verif_replay_test.go")
	if err := os.WriteFile(testFile, []byte(testSrc), 0o644); err != nil {
		return nil, "", err
	}
	replace[filepath.Join(repoDir, rel, "zz_verif_replay_test.go")] = testFile
	ov, _ := json.Marshal(map[string]interface{}{"Replace": replace})
	ovFile := filepath.Join(dir, "overlay.json")
	os.WriteFile(ovFile, ov, 0o644)
	cb, _ := json.Marshal(cases)
	caseFile := filepath.Join(dir, "cases.json")
	os.WriteFile(caseFile, cb, 0o644)

	cmd := exec.Command("go", "test", "-tags", "verif", "-vet=off", "-count=1", "-overlay", ovFile, "-run", "^TestVerifReplay$", "-timeout", "300s", "-v", e.Pkg)
	cmd.Dir = repoDir
	cmd.Env = append(os.Environ(), "GOFLAGS=-mod=mod", "GOPROXY=off", "GOSUMDB=off", "GOTOOLCHAIN=local", "VERIF_REPLAY="+caseFile)
	for k, v := range e.Env {
		cmd.Env = append(cmd.Env, k+"="+v)
	}
	done := make(chan struct{})
	var out []byte
	go func() {
		out, err = cmd.CombinedOutput()
		close(done)
	}()
	select {
	case <-done:
	case <-time.After(400 * time.Second):
		cmd.Process.Kill()
		<-done
	}
	text := string(out)
	results := make([]string, len(cases))
	n := 0
	for _, m := range caseRe.FindAllStringSubmatch(text, -1) {
		i, _ := strconv.Atoi(m[1])
		if i < len(results) {
			results[i] = strings.TrimSpace(m[2])
			n++
		}
	}
	if n < len(cases) {
		// a crash in a goroutine kills the test binary: attribute it to the first unreported case
		if idx := strings.Index(text, "panic: "); idx >= 0 {
			line := text[idx:]
			if j := strings.Index(line, "\n"); j > 0 {
				line = line[:j]
			}
			for i := range results {
				if results[i] == "" {
					results[i] = "PANIC(crash) " + line
					n++
					break
				}
			}
		}
	}
	if n == 0 {
		if len(text) > 3000 {
			text = text[len(text)-3000:]
		}
		return nil, text, fmt.Errorf("native run produced no case results")
	}
	return results, text, nil
}

// nativeValidate replays the models of sampled passing paths natively: the real
// build must agree that the assertions hold for those concrete inputs.
func (eng *Engine) nativeValidate(spec *CheckSpec, e EntrySpec, es *EntryStats) (int, string) {
	if e.NoNative || len(es.Models) == 0 {
		return 0, ""
	}
	results, out, err := eng.nativeRun(spec, e, es.Models)
	if err != nil {
		return 0, "native validation could not run: " + err.Error() + ": " + lastLines(out, 12)
	}
	n := 0
	for i, r := range results {
		switch {
		case r == "ok" || r == "ASSUME":
			n++
		case r == "":
		default:
			b, _ := json.Marshal(es.Models[i])
			return n, fmt.Sprintf("native/interpreter disagreement: the interpreter completed a path without violation but the native build reports %q for inputs %s", r, b)
		}
	}
	return n, ""
}

func lastLines(s string, n int) string {
	lines := strings.Split(strings.TrimSpace(s), "\n")
	if len(lines) > n {
		lines = lines[len(lines)-n:]
	}
	return strings.Join(lines, " | ")
}
