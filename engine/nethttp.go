package main

import (
	"go/token"
	"go/types"

	"golang.org/x/tools/go/ssa"
)

// A few net/http accessors so that an http.Handler can be driven with a
// harness-built *http.Request and a harness ResponseWriter (net/http itself is
// never interpreted).

func init() {
	in := func(name string, f intrinsic) { intrinsics[name] = f }
	in("(*net/http.Request).Context", func(st *State, c *frame, fn *ssa.Function, a []Value) Value {
		p := a[0].(*Value)
		reqT := fn.Signature.Recv().Type().(*types.Pointer).Elem()
		_, i, _, ok := fieldByName(reqT, "ctx")
		if !ok {
			panic(unsupported("http.Request.ctx not found"))
		}
		v := (*p).(Struct)[i]
		if it, isIface := v.(Iface); isIface && it.T != nil {
			return it
		}
		bg := st.eng.prog.ImportedPackage("context").Func("Background")
		return st.callFunc(c, token.NoPos, bg, nil)
	})
	in("(*net/http.Request).WithContext", func(st *State, c *frame, fn *ssa.Function, a []Value) Value {
		p := a[0].(*Value)
		reqT := fn.Signature.Recv().Type().(*types.Pointer).Elem()
		_, i, _, ok := fieldByName(reqT, "ctx")
		if !ok {
			panic(unsupported("http.Request.ctx not found"))
		}
		cp := copyVal(*p).(Struct)
		cp[i] = a[1]
		np := new(Value)
		*np = cp
		return np
	})
	hget := func(st *State, m Value, key string) (Slice, bool) {
		mm, _ := m.(*Map)
		if mm == nil {
			return Slice{Nil: true}, false
		}
		v, ok := mm.get(st, key)
		if !ok {
			return Slice{Nil: true}, false
		}
		return v.(Slice), true
	}
	in("net/http.Header.Get", func(st *State, c *frame, fn *ssa.Function, a []Value) Value {
		s, ok := hget(st, a[0], st.concStrV(a[1]))
		if !ok || len(s.A) == 0 {
			return ""
		}
		return s.A[0]
	})
	in("net/http.Header.Set", func(st *State, c *frame, fn *ssa.Function, a []Value) Value {
		mm, _ := a[0].(*Map)
		if mm == nil {
			panic(goPanic{mkRuntimeError("assignment to entry in nil map")})
		}
		mm.set(st, st.concStrV(a[1]), Slice{A: []Value{a[2]}})
		return nil
	})
	in("net/http.Error", func(st *State, c *frame, fn *ssa.Function, a []Value) Value {
		w := a[0].(Iface)
		st.callFunc(c, token.NoPos, st.lookupMethodByName(w.T, "WriteHeader"), []Value{w.V, a[2]})
		st.callFunc(c, token.NoPos, st.lookupMethodByName(w.T, "Write"), []Value{w.V, bytesValue([]byte(st.concStrV(a[1]) + "\n"))})
		return nil
	})
}

// oops errors print a stack trace captured with runtime.Callers, which the
// interpreter does not model (Callers returns 0 frames). Their text becomes
// "<cause>\n\n<reason>\n<reason>..." (innermost reason first), stack-free.
func init() {
	intrinsics["(*github.com/samsarahq/go/oops.oopsError).Error"] = func(st *State, c *frame, fn *ssa.Function, a []Value) Value {
		p, _ := a[0].(*Value)
		if p == nil {
			panic(goPanic{mkRuntimeError("invalid memory address or nil pointer dereference")})
		}
		t := fn.Signature.Recv().Type().(*types.Pointer).Elem()
		fld := func(s Struct, name string) Value {
			_, i, _, ok := fieldByName(t, name)
			if !ok {
				panic(unsupported("oopsError." + name))
			}
			return s[i]
		}
		s := (*p).(Struct)
		text := ""
		if cause, ok := fld(s, "cause").(Iface); ok && cause.T != nil {
			text = st.errorString(c, cause)
		}
		text += "\n\n"
		var reasons []string
		for cur := p; cur != nil; {
			cs := (*cur).(Struct)
			if r := st.concStrV(fld(cs, "reason")); r != "" {
				reasons = append(reasons, r)
			}
			cur, _ = fld(cs, "previous").(*Value)
		}
		for _, r := range reasons {
			text += r + "\n"
		}
		return text
	}
}
