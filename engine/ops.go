package main

import (
	"fmt"
	"go/token"
	"go/types"
	"unicode/utf8"

	"golang.org/x/tools/go/ssa"
)

func (st *State) unop(fr *frame, instr *ssa.UnOp, x Value) Value {
	switch instr.Op {
	case token.MUL: // load
		p := x.(*Value)
		if p == nil {
			panic(goPanic{mkRuntimeError("invalid memory address or nil pointer dereference")})
		}
		st.noteAccess(p, false)
		v := *p
		if po, ok := v.(Poison); ok {
			panic(unsupported("use of value from unsupported initialiser: " + po.Why))
		}
		return copyVal(v)
	case token.ARROW:
		v, ok := st.chanRecv(x.(*Chan))
		if instr.CommaOk {
			return Tuple{v, BoolC(ok)}
		}
		return v
	case token.NOT:
		return Not(x.(*Term))
	case token.SUB:
		t := x.(*Term)
		if t.Sort.K == SFP {
			return FpNeg(t)
		}
		return BvNeg(t)
	case token.XOR:
		return BvNot(x.(*Term))
	}
	panic(unsupported("unop " + instr.Op.String()))
}

// shiftCount converts a shift count y (of type yt) to the width of x with
// Go semantics (counts >= width saturate).
func (st *State) shiftCount(y *Term, yt types.Type, w int) *Term {
	if isSigned(yt) {
		neg := BvCmp(OBvSlt, y, BVC(y.Sort.W, 0))
		if st.decide(neg) {
			panic(goPanic{mkRuntimeError("negative shift amount")})
		}
	}
	yw := y.Sort.W
	if yw == w {
		return y
	}
	if yw < w {
		return Zext(y, w)
	}
	// narrow with saturation
	big := BvCmp(OBvUle, BVC(yw, uint64(w)), y)
	return Ite(big, BVC(w, uint64(w)), Extract(y, w-1, 0))
}

func (st *State) binop(op token.Token, t types.Type, x, y Value, yt types.Type) Value {
	switch op {
	case token.EQL:
		return eqValues(t, x, y)
	case token.NEQ:
		return Not(eqValues(t, x, y))
	}
	// strings
	switch xs := x.(type) {
	case string, *SymStr:
		_, xc := x.(string)
		_, yc := y.(string)
		if op == token.ADD {
			a, b := st.concStrV(x), st.concStrV(y)
			return a + b
		}
		var rel func(a, b string) bool
		switch op {
		case token.LSS:
			rel = func(a, b string) bool { return a < b }
		case token.LEQ:
			rel = func(a, b string) bool { return a <= b }
		case token.GTR:
			rel = func(a, b string) bool { return a > b }
		case token.GEQ:
			rel = func(a, b string) bool { return a >= b }
		default:
			panic(unsupported("string op " + op.String()))
		}
		if xc && yc {
			return BoolC(rel(x.(string), y.(string)))
		}
		_ = xs
		return strRel(x, y, rel)
	}
	a, ok := x.(*Term)
	if !ok {
		panic(unsupported(fmt.Sprintf("binop %s on %T", op, x)))
	}
	b := y.(*Term)
	if a.Sort.K == SFP {
		switch op {
		case token.ADD:
			return FpBin(OFpAdd, a, b)
		case token.SUB:
			return FpBin(OFpSub, a, b)
		case token.MUL:
			return FpBin(OFpMul, a, b)
		case token.QUO:
			return FpBin(OFpDiv, a, b)
		case token.LSS:
			return FpCmp(OFpLt, a, b)
		case token.LEQ:
			return FpCmp(OFpLe, a, b)
		case token.GTR:
			return FpCmp(OFpLt, b, a)
		case token.GEQ:
			return FpCmp(OFpLe, b, a)
		}
		panic(unsupported("float op " + op.String()))
	}
	if a.Sort.K == SBool {
		switch op {
		case token.AND, token.LAND:
			return And(a, b)
		case token.OR, token.LOR:
			return Or(a, b)
		}
		panic(unsupported("bool op " + op.String()))
	}
	signed := isSigned(t)
	w := a.Sort.W
	switch op {
	case token.ADD:
		return BvBin(OBvAdd, a, b)
	case token.SUB:
		return BvBin(OBvSub, a, b)
	case token.MUL:
		return BvBin(OBvMul, a, b)
	case token.QUO, token.REM:
		if st.decide(Eq(b, BVC(w, 0))) {
			panic(goPanic{mkRuntimeError("integer divide by zero")})
		}
		if signed {
			if op == token.QUO {
				return BvBin(OBvSDiv, a, b)
			}
			return BvBin(OBvSRem, a, b)
		}
		if op == token.QUO {
			return BvBin(OBvUDiv, a, b)
		}
		return BvBin(OBvURem, a, b)
	case token.AND:
		return BvBin(OBvAnd, a, b)
	case token.OR:
		return BvBin(OBvOr, a, b)
	case token.XOR:
		return BvBin(OBvXor, a, b)
	case token.AND_NOT:
		return BvBin(OBvAnd, a, BvNot(b))
	case token.SHL:
		return BvBin(OBvShl, a, st.shiftCount(b, yt, w))
	case token.SHR:
		c := st.shiftCount(b, yt, w)
		if signed {
			return BvBin(OBvAshr, a, c)
		}
		return BvBin(OBvLshr, a, c)
	case token.LSS:
		if signed {
			return BvCmp(OBvSlt, a, b)
		}
		return BvCmp(OBvUlt, a, b)
	case token.LEQ:
		if signed {
			return BvCmp(OBvSle, a, b)
		}
		return BvCmp(OBvUle, a, b)
	case token.GTR:
		if signed {
			return BvCmp(OBvSlt, b, a)
		}
		return BvCmp(OBvUlt, b, a)
	case token.GEQ:
		if signed {
			return BvCmp(OBvSle, b, a)
		}
		return BvCmp(OBvUle, b, a)
	}
	panic(unsupported("binop " + op.String()))
}

func (st *State) conv(tdst, tsrc types.Type, x Value) Value {
	ud := tdst.Underlying()
	us := tsrc.Underlying()
	switch us := us.(type) {
	case *types.Pointer:
		if _, ok := ud.(*types.Pointer); ok {
			return x
		}
		if b, ok := ud.(*types.Basic); ok && b.Kind() == types.UnsafePointer {
			return x
		}
	case *types.Slice:
		// []byte / []rune -> string
		if b, ok := ud.(*types.Basic); ok && b.Info()&types.IsString != 0 {
			s := x.(Slice)
			eb := us.Elem().Underlying().(*types.Basic)
			if eb.Kind() == types.Uint8 {
				bs := make([]byte, len(s.A))
				for i, e := range s.A {
					bs[i] = byte(st.concretise(e.(*Term), "byte in string conversion"))
				}
				return string(bs)
			}
			rs := make([]rune, len(s.A))
			for i, e := range s.A {
				rs[i] = rune(int32(st.concretise(e.(*Term), "rune in string conversion")))
			}
			return string(rs)
		}
		if _, ok := ud.(*types.Slice); ok {
			return x
		}
	case *types.Basic:
		// string -> []byte / []rune
		if us.Info()&types.IsString != 0 {
			s := st.concStrV(x)
			if sl, ok := ud.(*types.Slice); ok {
				eb := sl.Elem().Underlying().(*types.Basic)
				if eb.Kind() == types.Uint8 {
					out := make([]Value, len(s))
					for i := 0; i < len(s); i++ {
						out[i] = BVC(8, uint64(s[i]))
					}
					return Slice{A: out}
				}
				var out []Value
				for _, r := range s {
					out = append(out, BVC(32, uint64(r)))
				}
				if out == nil {
					out = []Value{}
				}
				return Slice{A: out}
			}
			if b, ok := ud.(*types.Basic); ok && b.Info()&types.IsString != 0 {
				return x
			}
		}
		if us.Kind() == types.UnsafePointer {
			return x
		}
		t, isT := x.(*Term)
		if !isT {
			break
		}
		bd, ok := ud.(*types.Basic)
		if !ok {
			break
		}
		switch {
		case bd.Info()&types.IsString != 0 && us.Info()&types.IsInteger != 0:
			v := st.concretise(t, "rune to string")
			r := rune(int64(v))
			if isSigned(tsrc) {
				r = rune(sx(v, t.Sort.W))
			}
			if !utf8.ValidRune(r) {
				r = utf8.RuneError
			}
			return string(r)
		case bd.Info()&types.IsInteger != 0 && us.Info()&types.IsInteger != 0:
			return Resize(t, basicWidth(bd), isSigned(tsrc))
		case bd.Info()&types.IsFloat != 0 && us.Info()&types.IsInteger != 0:
			return IntToFp(t, isSigned(tsrc), basicWidth(bd))
		case bd.Info()&types.IsInteger != 0 && us.Info()&types.IsFloat != 0:
			return FpToInt(t, isSigned(tdst), basicWidth(bd))
		case bd.Info()&types.IsFloat != 0 && us.Info()&types.IsFloat != 0:
			return FpToFp(t, basicWidth(bd))
		case bd.Info()&types.IsBoolean != 0 && us.Info()&types.IsBoolean != 0:
			return t
		}
	}
	if types.Identical(ud, us) {
		return x
	}
	panic(unsupported(fmt.Sprintf("conversion %v -> %v", tsrc, tdst)))
}

// ---------- concretisation

// concretise enumerates the feasible values of t under the path condition by
// forking; returns the value on the current path.
func (st *State) concretise(t *Term, what string) uint64 {
	if t.IsConst() {
		return t.Val
	}
	return st.concretiseDec(t, what)
}

func (st *State) concInt(t *Term, what string) int64 {
	v := st.concretise(t, what)
	return sx(v, t.Sort.W)
}

func (st *State) concStr(s *SymStr) string {
	id := st.concretise(s.ID, "symbolic string "+s.Name)
	return s.Tab[id]
}

func (st *State) concStrV(v Value) string {
	switch s := v.(type) {
	case string:
		return s
	case *SymStr:
		return st.concStr(s)
	}
	panic(fmt.Sprintf("concStrV %T", v))
}

func (st *State) symStrLen(s *SymStr) *Term {
	res := BVC(64, uint64(len(s.Tab[len(s.Tab)-1])))
	for i := len(s.Tab) - 2; i >= 0; i-- {
		res = Ite(Eq(s.ID, BVC(8, uint64(i))), BVC(64, uint64(len(s.Tab[i]))), res)
	}
	return res
}
