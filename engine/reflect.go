package main

// Model of package reflect (and the sliver of internal/reflectlite that
// context/errors use). reflect.Type values are canonical *RType wrapped in an
// interface whose dynamic type is *reflect.rtype; reflect.Value is RValue.

import (
	"fmt"
	"go/token"
	"go/types"
	"reflect"
	"strings"
	"sync"

	"golang.org/x/tools/go/ssa"
	"golang.org/x/tools/go/types/typeutil"
)

type RType struct{ T types.Type }

type RValue struct {
	T    types.Type
	V    Value  // the value (when not addressable)
	Addr *Value // non-nil: addressable, value lives at *Addr
	OK   bool
	RO   bool
}

var (
	reflectRtypePtr     types.Type
	reflectliteRtype    types.Type
	rtypeMu             sync.Mutex
	rtypeCanon          typeutil.Map
	reflectStructFieldT *types.Named
	reflectMethodT      *types.Named
)

func rtypeOf(t types.Type) *RType {
	rtypeMu.Lock()
	defer rtypeMu.Unlock()
	if v := rtypeCanon.At(t); v != nil {
		return v.(*RType)
	}
	r := &RType{T: t}
	rtypeCanon.Set(t, r)
	return r
}

func typeIface(t types.Type) Value {
	if t == nil {
		return Iface{}
	}
	return Iface{T: reflectRtypePtr, V: rtypeOf(t)}
}

func (r RValue) valid() bool { return r.OK }
func (r RValue) get() Value {
	if r.Addr != nil {
		return *r.Addr
	}
	return r.V
}

func rtypeString(t types.Type) string {
	return types.TypeString(t, func(p *types.Package) string { return p.Name() })
}

func kindOf(t types.Type) reflect.Kind {
	switch u := t.Underlying().(type) {
	case *types.Basic:
		switch u.Kind() {
		case types.Bool, types.UntypedBool:
			return reflect.Bool
		case types.Int, types.UntypedInt:
			return reflect.Int
		case types.Int8:
			return reflect.Int8
		case types.Int16:
			return reflect.Int16
		case types.Int32, types.UntypedRune:
			return reflect.Int32
		case types.Int64:
			return reflect.Int64
		case types.Uint:
			return reflect.Uint
		case types.Uint8:
			return reflect.Uint8
		case types.Uint16:
			return reflect.Uint16
		case types.Uint32:
			return reflect.Uint32
		case types.Uint64:
			return reflect.Uint64
		case types.Uintptr:
			return reflect.Uintptr
		case types.Float32:
			return reflect.Float32
		case types.Float64, types.UntypedFloat:
			return reflect.Float64
		case types.Complex64:
			return reflect.Complex64
		case types.Complex128:
			return reflect.Complex128
		case types.String, types.UntypedString:
			return reflect.String
		case types.UnsafePointer:
			return reflect.UnsafePointer
		}
	case *types.Array:
		return reflect.Array
	case *types.Chan:
		return reflect.Chan
	case *types.Signature:
		return reflect.Func
	case *types.Interface:
		return reflect.Interface
	case *types.Map:
		return reflect.Map
	case *types.Pointer:
		return reflect.Ptr
	case *types.Slice:
		return reflect.Slice
	case *types.Struct:
		return reflect.Struct
	}
	return reflect.Invalid
}

func reflectPanic(msg string) {
	panic(goPanic{Iface{T: types.Typ[types.String], V: "reflect: " + msg}})
}

func kindTerm(k reflect.Kind) *Term { return BVC(64, uint64(k)) }

func rtArg(v Value) *RType {
	switch x := v.(type) {
	case *RType:
		return x
	case Iface:
		if x.T == nil {
			reflectPanic("nil Type")
		}
		return x.V.(*RType)
	}
	panic(fmt.Sprintf("rtArg %T", v))
}

// wrapTo converts a value of static type from to a value of static type to for
// assignment (interface boxing).
func wrapTo(to, from types.Type, v Value) Value {
	if _, isI := to.Underlying().(*types.Interface); isI {
		if _, fromI := from.Underlying().(*types.Interface); fromI {
			return v
		}
		return Iface{T: from, V: v}
	}
	return v
}

func (st *State) ptrID(key interface{}) uint64 {
	if st.ptrIDs == nil {
		st.ptrIDs = map[interface{}]uint64{}
	}
	if id, ok := st.ptrIDs[key]; ok {
		return id
	}
	id := uint64(0xc000000000 + 0x100*uint64(len(st.ptrIDs)+1))
	st.ptrIDs[key] = id
	return id
}

func mkStructField(st *State, stt *types.Struct, i int, index []int) Value {
	f := stt.Field(i)
	us := reflectStructFieldT.Underlying().(*types.Struct)
	out := make(Struct, us.NumFields())
	for j := 0; j < us.NumFields(); j++ {
		switch us.Field(j).Name() {
		case "Name":
			out[j] = f.Name()
		case "PkgPath":
			if f.Exported() || f.Pkg() == nil {
				out[j] = ""
			} else {
				out[j] = f.Pkg().Path()
			}
		case "Type":
			out[j] = typeIface(f.Type())
		case "Tag":
			out[j] = stt.Tag(i)
		case "Offset":
			out[j] = BVC(64, uint64(8*i))
		case "Index":
			idx := make([]Value, len(index))
			for k, x := range index {
				idx[k] = BVC(64, uint64(x))
			}
			out[j] = Slice{A: idx}
		case "Anonymous":
			out[j] = BoolC(f.Embedded())
		default:
			out[j] = zero(us.Field(j).Type())
		}
	}
	return out
}

// fieldByName finds a (possibly promoted) field like reflect.Type.FieldByName.
func fieldByName(t types.Type, name string) (*types.Struct, int, []int, bool) {
	obj, index, _ := types.LookupFieldOrMethod(t, true, nil, name)
	if obj == nil {
		// unexported fields of other packages: search direct fields
		if stt, ok := t.Underlying().(*types.Struct); ok {
			for i := 0; i < stt.NumFields(); i++ {
				if stt.Field(i).Name() == name {
					return stt, i, []int{i}, true
				}
			}
		}
		return nil, 0, nil, false
	}
	v, ok := obj.(*types.Var)
	if !ok || !v.IsField() {
		return nil, 0, nil, false
	}
	// walk to the owning struct
	cur := t
	var stt *types.Struct
	for k, i := range index {
		if p, ok := cur.Underlying().(*types.Pointer); ok {
			cur = p.Elem()
		}
		stt = cur.Underlying().(*types.Struct)
		if k < len(index)-1 {
			cur = stt.Field(i).Type()
		}
	}
	return stt, index[len(index)-1], index, true
}

func (st *State) rvField(v RValue, i int) RValue {
	stt, ok := v.T.Underlying().(*types.Struct)
	if !ok {
		reflectPanic("call of reflect.Value.Field on " + kindOf(v.T).String() + " Value")
	}
	if i < 0 || i >= stt.NumFields() {
		reflectPanic("Field index out of range")
	}
	f := stt.Field(i)
	out := RValue{T: f.Type(), OK: true, RO: v.RO || !f.Exported()}
	if v.Addr != nil {
		out.Addr = &(*v.Addr).(Struct)[i]
	} else {
		out.V = v.V.(Struct)[i]
	}
	return out
}

func (st *State) rvElem(v RValue) RValue {
	switch kindOf(v.T) {
	case reflect.Ptr:
		p := v.get().(*Value)
		if p == nil {
			return RValue{}
		}
		return RValue{T: v.T.Underlying().(*types.Pointer).Elem(), Addr: p, OK: true, RO: v.RO}
	case reflect.Interface:
		it := v.get().(Iface)
		if it.T == nil {
			return RValue{}
		}
		return RValue{T: it.T, V: it.V, OK: true, RO: v.RO}
	}
	reflectPanic("call of reflect.Value.Elem on " + kindOf(v.T).String() + " Value")
	return RValue{}
}

func (st *State) rvInterface(v RValue) Value {
	if !v.OK {
		reflectPanic("call of reflect.Value.Interface on zero Value")
	}
	if v.RO {
		reflectPanic("reflect.Value.Interface: cannot return value obtained from unexported field or method")
	}
	val := copyVal(v.get())
	if _, isI := v.T.Underlying().(*types.Interface); isI {
		return val
	}
	return Iface{T: v.T, V: val}
}

func (st *State) rvSet(dst RValue, src RValue) {
	if dst.Addr == nil {
		reflectPanic("reflect.Value.Set using unaddressable value")
	}
	if dst.RO {
		reflectPanic("reflect.Value.Set using value obtained using unexported field")
	}
	if !src.OK {
		reflectPanic("reflect.Set: value of type <invalid> is not assignable")
	}
	if !types.AssignableTo(src.T, dst.T) {
		reflectPanic("reflect.Set: value of type " + rtypeString(src.T) + " is not assignable to type " + rtypeString(dst.T))
	}
	val := wrapTo(dst.T, src.T, copyVal(src.get()))
	store(dst.T, dst.Addr, val)
}

func rvKind(v RValue) reflect.Kind {
	if !v.OK {
		return reflect.Invalid
	}
	return kindOf(v.T)
}

func isIntKind(k reflect.Kind) bool  { return k >= reflect.Int && k <= reflect.Int64 }
func isUintKind(k reflect.Kind) bool { return k >= reflect.Uint && k <= reflect.Uintptr }

func (st *State) rvIsNil(v RValue) *Term {
	switch kindOf(v.T) {
	case reflect.Ptr, reflect.UnsafePointer:
		return BoolC(v.get().(*Value) == nil)
	case reflect.Map:
		return BoolC(v.get().(*Map) == nil)
	case reflect.Slice:
		return BoolC(v.get().(Slice).Nil)
	case reflect.Func:
		return BoolC(isNilFunc(v.get()))
	case reflect.Chan:
		return BoolC(v.get().(*Chan) == nil)
	case reflect.Interface:
		return BoolC(v.get().(Iface).T == nil)
	}
	reflectPanic("call of reflect.Value.IsNil on " + kindOf(v.T).String() + " Value")
	return nil
}

func (st *State) rvIsZero(t types.Type, x Value) *Term {
	switch kindOf(t) {
	case reflect.Bool:
		return Not(x.(*Term))
	case reflect.Float32, reflect.Float64:
		tm := x.(*Term)
		// math.Float64bits(x) == 0: +0 only
		if tm.IsConst() {
			return BoolC(tm.Val == 0)
		}
		return And(FpCmp(OFpEq, tm, zeroOfSort(tm.Sort)), Not(FpCmp(OFpLt, FpBin(OFpDiv, fpc(tm.Sort.W, 1), tm), zeroOfSort(tm.Sort))))
	case reflect.String:
		return eqValues(nil, x, "")
	case reflect.Array:
		res := TrueT
		et := t.Underlying().(*types.Array).Elem()
		for _, e := range x.(Array) {
			res = And(res, st.rvIsZero(et, e))
		}
		return res
	case reflect.Struct:
		res := TrueT
		stt := t.Underlying().(*types.Struct)
		for i, e := range x.(Struct) {
			res = And(res, st.rvIsZero(stt.Field(i).Type(), e))
		}
		return res
	case reflect.Ptr, reflect.Map, reflect.Slice, reflect.Func, reflect.Chan, reflect.Interface, reflect.UnsafePointer:
		return st.rvIsNil(RValue{T: t, V: x, OK: true})
	}
	tm := x.(*Term)
	return Eq(tm, zeroOfSort(tm.Sort))
}

func (st *State) rvSlice(fnT types.Type, vals []RValue) Value {
	// []reflect.Value
	out := make([]Value, len(vals))
	for i, v := range vals {
		out[i] = v
	}
	return Slice{A: out}
}

func (st *State) rvCall(c *frame, fv RValue, in []Value, isSlice bool) Value {
	sig, ok := fv.T.Underlying().(*types.Signature)
	if !ok {
		reflectPanic("call of non-function")
	}
	f := fv.get()
	if isNilFunc(f) {
		reflectPanic("call of nil function")
	}
	np := sig.Params().Len()
	args := make([]Value, 0, np)
	conv := func(i int, pt types.Type) Value {
		a := in[i].(RValue)
		if !a.OK {
			reflectPanic("Call using zero Value argument")
		}
		if !types.AssignableTo(a.T, pt) {
			reflectPanic("Call using " + rtypeString(a.T) + " as type " + rtypeString(pt))
		}
		return wrapTo(pt, a.T, copyVal(a.get()))
	}
	if sig.Variadic() && !isSlice {
		if len(in) < np-1 {
			reflectPanic("Call with too few input arguments")
		}
		for i := 0; i < np-1; i++ {
			args = append(args, conv(i, sig.Params().At(i).Type()))
		}
		et := sig.Params().At(np - 1).Type().(*types.Slice).Elem()
		var rest []Value
		for i := np - 1; i < len(in); i++ {
			rest = append(rest, conv(i, et))
		}
		if rest == nil {
			args = append(args, Slice{Nil: true})
		} else {
			args = append(args, Slice{A: rest})
		}
	} else {
		if len(in) != np {
			reflectPanic(fmt.Sprintf("Call with %d input arguments, want %d", len(in), np))
		}
		for i := 0; i < np; i++ {
			args = append(args, conv(i, sig.Params().At(i).Type()))
		}
	}
	res := st.callFunc(c, token.NoPos, f, args)
	nr := sig.Results().Len()
	out := make([]Value, nr)
	switch nr {
	case 0:
	case 1:
		out[0] = RValue{T: sig.Results().At(0).Type(), V: res, OK: true}
	default:
		tup := res.(Tuple)
		for i := 0; i < nr; i++ {
			out[i] = RValue{T: sig.Results().At(i).Type(), V: tup[i], OK: true}
		}
	}
	return Slice{A: out}
}

func rvArg(v Value) RValue {
	r, ok := v.(RValue)
	if !ok {
		panic(fmt.Sprintf("expected reflect.Value model, got %T", v))
	}
	return r
}

func (st *State) toWidth(t *Term, w int, signed bool) *Term { return Resize(t, w, signed) }

func reflectIntrinsic(fn *ssa.Function) intrinsic {
	name := fn.Name()
	recv := fn.Signature.Recv()
	if recv == nil {
		return reflectFuncs[name]
	}
	rt := recv.Type()
	if p, ok := rt.(*types.Pointer); ok {
		rt = p.Elem()
	}
	n, ok := rt.(*types.Named)
	if !ok {
		return nil
	}
	switch n.Obj().Name() {
	case "rtype":
		return rtypeMethods[name]
	case "Value":
		return rvalueMethods[name]
	case "Kind":
		if name == "String" {
			return func(st *State, c *frame, f *ssa.Function, a []Value) Value {
				return reflect.Kind(st.concretise(a[0].(*Term), "kind")).String()
			}
		}
	case "StructTag":
		switch name {
		case "Get":
			return func(st *State, c *frame, f *ssa.Function, a []Value) Value {
				return reflect.StructTag(st.concStrV(a[0])).Get(st.concStrV(a[1]))
			}
		case "Lookup":
			return func(st *State, c *frame, f *ssa.Function, a []Value) Value {
				v, ok := reflect.StructTag(st.concStrV(a[0])).Lookup(st.concStrV(a[1]))
				return Tuple{v, BoolC(ok)}
			}
		}
	}
	return nil
}

func reflectliteIntrinsic(fn *ssa.Function) intrinsic {
	name := fn.Name()
	if fn.Signature.Recv() == nil {
		switch name {
		case "TypeOf":
			return func(st *State, c *frame, f *ssa.Function, a []Value) Value {
				it := a[0].(Iface)
				if it.T == nil {
					return Iface{}
				}
				return Iface{T: reflectliteRtype, V: rtypeOf(it.T)}
			}
		}
		return nil
	}
	switch name {
	case "Elem":
		return func(st *State, c *frame, f *ssa.Function, a []Value) Value {
			t := a[0].(*RType).T
			switch u := t.Underlying().(type) {
			case *types.Pointer:
				return Iface{T: reflectliteRtype, V: rtypeOf(u.Elem())}
			case *types.Slice:
				return Iface{T: reflectliteRtype, V: rtypeOf(u.Elem())}
			}
			panic(unsupported("reflectlite Elem"))
		}
	case "Comparable":
		return func(st *State, c *frame, f *ssa.Function, a []Value) Value {
			return BoolC(types.Comparable(a[0].(*RType).T))
		}
	case "String", "Name":
		return func(st *State, c *frame, f *ssa.Function, a []Value) Value {
			return rtypeString(a[0].(*RType).T)
		}
	case "Kind":
		return func(st *State, c *frame, f *ssa.Function, a []Value) Value {
			return kindTerm(kindOf(a[0].(*RType).T))
		}
	}
	return nil
}

var reflectFuncs map[string]intrinsic
var rtypeMethods map[string]intrinsic
var rvalueMethods map[string]intrinsic

func init() {
	type I = intrinsic
	reflectFuncs = map[string]intrinsic{
		"TypeOf": func(st *State, c *frame, f *ssa.Function, a []Value) Value {
			it := a[0].(Iface)
			if it.T == nil {
				return Iface{}
			}
			return typeIface(it.T)
		},
		"ValueOf": func(st *State, c *frame, f *ssa.Function, a []Value) Value {
			it := a[0].(Iface)
			if it.T == nil {
				return RValue{}
			}
			if rv, ok := it.V.(RValue); ok && false {
				return rv
			}
			return RValue{T: it.T, V: it.V, OK: true}
		},
		"New": func(st *State, c *frame, f *ssa.Function, a []Value) Value {
			t := rtArg(a[0]).T
			p := new(Value)
			*p = zero(t)
			return RValue{T: types.NewPointer(t), V: p, OK: true}
		},
		"Zero": func(st *State, c *frame, f *ssa.Function, a []Value) Value {
			t := rtArg(a[0]).T
			return RValue{T: t, V: zero(t), OK: true}
		},
		"Indirect": func(st *State, c *frame, f *ssa.Function, a []Value) Value {
			v := rvArg(a[0])
			if rvKind(v) != reflect.Ptr {
				return v
			}
			return st.rvElem(v)
		},
		"PtrTo": func(st *State, c *frame, f *ssa.Function, a []Value) Value {
			return typeIface(types.NewPointer(rtArg(a[0]).T))
		},
		"PointerTo": func(st *State, c *frame, f *ssa.Function, a []Value) Value {
			return typeIface(types.NewPointer(rtArg(a[0]).T))
		},
		"SliceOf": func(st *State, c *frame, f *ssa.Function, a []Value) Value {
			return typeIface(types.NewSlice(rtArg(a[0]).T))
		},
		"MapOf": func(st *State, c *frame, f *ssa.Function, a []Value) Value {
			return typeIface(types.NewMap(rtArg(a[0]).T, rtArg(a[1]).T))
		},
		"ArrayOf": func(st *State, c *frame, f *ssa.Function, a []Value) Value {
			return typeIface(types.NewArray(rtArg(a[1]).T, st.concInt(a[0].(*Term), "array len")))
		},
		"MakeSlice": func(st *State, c *frame, f *ssa.Function, a []Value) Value {
			t := rtArg(a[0]).T
			ln := int(st.concInt(a[1].(*Term), "len"))
			cp := int(st.concInt(a[2].(*Term), "cap"))
			if ln < 0 || cp < ln {
				reflectPanic("MakeSlice: bad len/cap")
			}
			et := t.Underlying().(*types.Slice).Elem()
			arr := make([]Value, cp)
			for i := range arr {
				arr[i] = zero(et)
			}
			return RValue{T: t, V: Slice{A: arr[:ln]}, OK: true}
		},
		"MakeMap": func(st *State, c *frame, f *ssa.Function, a []Value) Value {
			t := rtArg(a[0]).T
			return RValue{T: t, V: newMap(t.Underlying().(*types.Map)), OK: true}
		},
		"MakeMapWithSize": func(st *State, c *frame, f *ssa.Function, a []Value) Value {
			t := rtArg(a[0]).T
			return RValue{T: t, V: newMap(t.Underlying().(*types.Map)), OK: true}
		},
		"Append": func(st *State, c *frame, f *ssa.Function, a []Value) Value {
			s := rvArg(a[0])
			et := s.T.Underlying().(*types.Slice).Elem()
			cur := s.get().(Slice)
			out := append([]Value{}, cur.A...)
			for _, x := range a[1].(Slice).A {
				xv := rvArg(x)
				out = append(out, wrapTo(et, xv.T, copyVal(xv.get())))
			}
			return RValue{T: s.T, V: Slice{A: out}, OK: true}
		},
		"DeepEqual": func(st *State, c *frame, f *ssa.Function, a []Value) Value {
			return st.deepEq(a[0], a[1], 0)
		},
		"Copy": func(st *State, c *frame, f *ssa.Function, a []Value) Value {
			d, s := rvArg(a[0]).get().(Slice), rvArg(a[1]).get().(Slice)
			n := copy(d.A, s.A)
			return BVC(64, uint64(n))
		},
	}

	rt := func(a []Value) types.Type { return a[0].(*RType).T }
	rtypeMethods = map[string]intrinsic{
		"Kind":   func(st *State, c *frame, f *ssa.Function, a []Value) Value { return kindTerm(kindOf(rt(a))) },
		"String": func(st *State, c *frame, f *ssa.Function, a []Value) Value { return rtypeString(rt(a)) },
		"Name": func(st *State, c *frame, f *ssa.Function, a []Value) Value {
			switch t := rt(a).(type) {
			case *types.Named:
				return t.Obj().Name()
			case *types.Basic:
				return t.Name()
			case *types.Alias:
				return t.Obj().Name()
			}
			return ""
		},
		"PkgPath": func(st *State, c *frame, f *ssa.Function, a []Value) Value {
			if t, ok := rt(a).(*types.Named); ok && t.Obj().Pkg() != nil {
				return t.Obj().Pkg().Path()
			}
			return ""
		},
		"Elem": func(st *State, c *frame, f *ssa.Function, a []Value) Value {
			switch u := rt(a).Underlying().(type) {
			case *types.Pointer:
				return typeIface(u.Elem())
			case *types.Slice:
				return typeIface(u.Elem())
			case *types.Array:
				return typeIface(u.Elem())
			case *types.Map:
				return typeIface(u.Elem())
			case *types.Chan:
				return typeIface(u.Elem())
			}
			reflectPanic("Elem of invalid type " + rtypeString(rt(a)))
			return nil
		},
		"Key": func(st *State, c *frame, f *ssa.Function, a []Value) Value {
			if u, ok := rt(a).Underlying().(*types.Map); ok {
				return typeIface(u.Key())
			}
			reflectPanic("Key of non-map type " + rtypeString(rt(a)))
			return nil
		},
		"Len": func(st *State, c *frame, f *ssa.Function, a []Value) Value {
			if u, ok := rt(a).Underlying().(*types.Array); ok {
				return BVC(64, uint64(u.Len()))
			}
			reflectPanic("Len of non-array type")
			return nil
		},
		"NumField": func(st *State, c *frame, f *ssa.Function, a []Value) Value {
			if u, ok := rt(a).Underlying().(*types.Struct); ok {
				return BVC(64, uint64(u.NumFields()))
			}
			reflectPanic("NumField of non-struct type " + rtypeString(rt(a)))
			return nil
		},
		"Field": func(st *State, c *frame, f *ssa.Function, a []Value) Value {
			u, ok := rt(a).Underlying().(*types.Struct)
			if !ok {
				reflectPanic("Field of non-struct type " + rtypeString(rt(a)))
			}
			i := int(st.concInt(a[1].(*Term), "field index"))
			if i < 0 || i >= u.NumFields() {
				reflectPanic("Field index out of bounds")
			}
			return mkStructField(st, u, i, []int{i})
		},
		"FieldByName": func(st *State, c *frame, f *ssa.Function, a []Value) Value {
			stt, i, index, ok := fieldByName(rt(a), st.concStrV(a[1]))
			if !ok {
				return Tuple{zero(reflectStructFieldT), FalseT}
			}
			return Tuple{mkStructField(st, stt, i, index), TrueT}
		},
		"NumIn": func(st *State, c *frame, f *ssa.Function, a []Value) Value {
			return BVC(64, uint64(rt(a).Underlying().(*types.Signature).Params().Len()))
		},
		"In": func(st *State, c *frame, f *ssa.Function, a []Value) Value {
			return typeIface(rt(a).Underlying().(*types.Signature).Params().At(int(st.concInt(a[1].(*Term), "in"))).Type())
		},
		"NumOut": func(st *State, c *frame, f *ssa.Function, a []Value) Value {
			return BVC(64, uint64(rt(a).Underlying().(*types.Signature).Results().Len()))
		},
		"Out": func(st *State, c *frame, f *ssa.Function, a []Value) Value {
			return typeIface(rt(a).Underlying().(*types.Signature).Results().At(int(st.concInt(a[1].(*Term), "out"))).Type())
		},
		"IsVariadic": func(st *State, c *frame, f *ssa.Function, a []Value) Value {
			return BoolC(rt(a).Underlying().(*types.Signature).Variadic())
		},
		"Implements": func(st *State, c *frame, f *ssa.Function, a []Value) Value {
			u := rtArg(a[1]).T
			it, ok := u.Underlying().(*types.Interface)
			if !ok {
				reflectPanic("non-interface type passed to Type.Implements")
			}
			return BoolC(types.Implements(rt(a), it))
		},
		"AssignableTo": func(st *State, c *frame, f *ssa.Function, a []Value) Value {
			return BoolC(types.AssignableTo(rt(a), rtArg(a[1]).T))
		},
		"ConvertibleTo": func(st *State, c *frame, f *ssa.Function, a []Value) Value {
			return BoolC(types.ConvertibleTo(rt(a), rtArg(a[1]).T))
		},
		"Comparable": func(st *State, c *frame, f *ssa.Function, a []Value) Value { return BoolC(types.Comparable(rt(a))) },
		"NumMethod": func(st *State, c *frame, f *ssa.Function, a []Value) Value {
			ms := st.eng.prog.MethodSets.MethodSet(rt(a))
			n := 0
			for i := 0; i < ms.Len(); i++ {
				if ms.At(i).Obj().Exported() {
					n++
				}
			}
			return BVC(64, uint64(n))
		},
		"Size": func(st *State, c *frame, f *ssa.Function, a []Value) Value {
			return BVC(64, uint64(types.SizesFor("gc", "amd64").Sizeof(rt(a))))
		},
		"Bits": func(st *State, c *frame, f *ssa.Function, a []Value) Value {
			if b, ok := rt(a).Underlying().(*types.Basic); ok {
				return BVC(64, uint64(basicWidth(b)))
			}
			reflectPanic("Bits of non-arithmetic Type")
			return nil
		},
	}

	rv := func(a []Value) RValue { return rvArg(a[0]) }
	mustValid := func(v RValue, m string) {
		if !v.OK {
			reflectPanic("call of reflect.Value." + m + " on zero Value")
		}
	}
	setScalar := func(kindOK func(reflect.Kind) bool, mname string, mk func(st *State, dst RValue, x Value) Value) intrinsic {
		return func(st *State, c *frame, f *ssa.Function, a []Value) Value {
			v := rv(a)
			mustValid(v, mname)
			if v.Addr == nil || v.RO {
				reflectPanic("reflect.Value." + mname + " using unaddressable value")
			}
			if !kindOK(kindOf(v.T)) {
				reflectPanic("call of reflect.Value." + mname + " on " + kindOf(v.T).String() + " Value")
			}
			*v.Addr = mk(st, v, a[1])
			return nil
		}
	}
	rvalueMethods = map[string]intrinsic{
		"Kind":    func(st *State, c *frame, f *ssa.Function, a []Value) Value { return kindTerm(rvKind(rv(a))) },
		"IsValid": func(st *State, c *frame, f *ssa.Function, a []Value) Value { return BoolC(rv(a).OK) },
		"Type": func(st *State, c *frame, f *ssa.Function, a []Value) Value {
			v := rv(a)
			mustValid(v, "Type")
			return typeIface(v.T)
		},
		"IsNil": func(st *State, c *frame, f *ssa.Function, a []Value) Value {
			v := rv(a)
			mustValid(v, "IsNil")
			return st.rvIsNil(v)
		},
		"IsZero": func(st *State, c *frame, f *ssa.Function, a []Value) Value {
			v := rv(a)
			mustValid(v, "IsZero")
			return st.rvIsZero(v.T, v.get())
		},
		"Elem": func(st *State, c *frame, f *ssa.Function, a []Value) Value {
			v := rv(a)
			mustValid(v, "Elem")
			return st.rvElem(v)
		},
		"Field": func(st *State, c *frame, f *ssa.Function, a []Value) Value {
			v := rv(a)
			mustValid(v, "Field")
			return st.rvField(v, int(st.concInt(a[1].(*Term), "field")))
		},
		"NumField": func(st *State, c *frame, f *ssa.Function, a []Value) Value {
			v := rv(a)
			mustValid(v, "NumField")
			return BVC(64, uint64(v.T.Underlying().(*types.Struct).NumFields()))
		},
		"FieldByIndex": func(st *State, c *frame, f *ssa.Function, a []Value) Value {
			v := rv(a)
			mustValid(v, "FieldByIndex")
			for k, ix := range a[1].(Slice).A {
				if k > 0 && kindOf(v.T) == reflect.Ptr {
					if v.get().(*Value) == nil {
						reflectPanic("reflect: indirection through nil pointer to embedded struct")
					}
					v = st.rvElem(v)
				}
				v = st.rvField(v, int(st.concInt(ix.(*Term), "field")))
			}
			return v
		},
		"FieldByName": func(st *State, c *frame, f *ssa.Function, a []Value) Value {
			v := rv(a)
			mustValid(v, "FieldByName")
			_, _, index, ok := fieldByName(v.T, st.concStrV(a[1]))
			if !ok {
				return RValue{}
			}
			for k, ix := range index {
				if k > 0 && kindOf(v.T) == reflect.Ptr {
					v = st.rvElem(v)
					if !v.OK {
						return RValue{}
					}
				}
				v = st.rvField(v, ix)
			}
			return v
		},
		"Index": func(st *State, c *frame, f *ssa.Function, a []Value) Value {
			v := rv(a)
			mustValid(v, "Index")
			idx := a[1].(*Term)
			switch kindOf(v.T) {
			case reflect.Slice:
				s := v.get().(Slice)
				i := st.index(idx, len(s.A), true)
				return RValue{T: v.T.Underlying().(*types.Slice).Elem(), Addr: &s.A[i], OK: true, RO: v.RO}
			case reflect.Array:
				et := v.T.Underlying().(*types.Array).Elem()
				if v.Addr != nil {
					arr := (*v.Addr).(Array)
					i := st.index(idx, len(arr), true)
					return RValue{T: et, Addr: &arr[i], OK: true, RO: v.RO}
				}
				arr := v.V.(Array)
				i := st.index(idx, len(arr), true)
				return RValue{T: et, V: arr[i], OK: true, RO: v.RO}
			case reflect.String:
				s := st.concStrV(v.get())
				i := st.index(idx, len(s), true)
				return RValue{T: types.Typ[types.Uint8], V: BVC(8, uint64(s[i])), OK: true}
			}
			reflectPanic("call of reflect.Value.Index on " + kindOf(v.T).String() + " Value")
			return nil
		},
		"Len": func(st *State, c *frame, f *ssa.Function, a []Value) Value {
			v := rv(a)
			mustValid(v, "Len")
			switch x := v.get().(type) {
			case Slice:
				return BVC(64, uint64(len(x.A)))
			case Array:
				return BVC(64, uint64(len(x)))
			case *Map:
				return BVC(64, uint64(x.Len()))
			case string:
				return BVC(64, uint64(len(x)))
			case *SymStr:
				return st.symStrLen(x)
			case *Chan:
				if x == nil {
					return BVC(64, 0)
				}
				return BVC(64, uint64(len(x.buf)))
			}
			reflectPanic("call of reflect.Value.Len on " + kindOf(v.T).String() + " Value")
			return nil
		},
		"Cap": func(st *State, c *frame, f *ssa.Function, a []Value) Value {
			v := rv(a)
			mustValid(v, "Cap")
			switch x := v.get().(type) {
			case Slice:
				return BVC(64, uint64(cap(x.A)))
			case Array:
				return BVC(64, uint64(len(x)))
			}
			reflectPanic("call of reflect.Value.Cap on " + kindOf(v.T).String() + " Value")
			return nil
		},
		"Interface": func(st *State, c *frame, f *ssa.Function, a []Value) Value { return st.rvInterface(rv(a)) },
		"CanInterface": func(st *State, c *frame, f *ssa.Function, a []Value) Value {
			v := rv(a)
			mustValid(v, "CanInterface")
			return BoolC(!v.RO)
		},
		"CanAddr": func(st *State, c *frame, f *ssa.Function, a []Value) Value { return BoolC(rv(a).Addr != nil) },
		"CanSet":  func(st *State, c *frame, f *ssa.Function, a []Value) Value { return BoolC(rv(a).Addr != nil && !rv(a).RO) },
		"Addr": func(st *State, c *frame, f *ssa.Function, a []Value) Value {
			v := rv(a)
			if v.Addr == nil {
				reflectPanic("reflect.Value.Addr of unaddressable value")
			}
			return RValue{T: types.NewPointer(v.T), V: v.Addr, OK: true, RO: v.RO}
		},
		"Set": func(st *State, c *frame, f *ssa.Function, a []Value) Value {
			st.rvSet(rv(a), rvArg(a[1]))
			return nil
		},
		"Int": func(st *State, c *frame, f *ssa.Function, a []Value) Value {
			v := rv(a)
			if !isIntKind(rvKind(v)) {
				reflectPanic("call of reflect.Value.Int on " + rvKind(v).String() + " Value")
			}
			return Resize(v.get().(*Term), 64, true)
		},
		"Uint": func(st *State, c *frame, f *ssa.Function, a []Value) Value {
			v := rv(a)
			if !isUintKind(rvKind(v)) {
				reflectPanic("call of reflect.Value.Uint on " + rvKind(v).String() + " Value")
			}
			return Resize(v.get().(*Term), 64, false)
		},
		"Float": func(st *State, c *frame, f *ssa.Function, a []Value) Value {
			v := rv(a)
			k := rvKind(v)
			if k != reflect.Float32 && k != reflect.Float64 {
				reflectPanic("call of reflect.Value.Float on " + k.String() + " Value")
			}
			return FpToFp(v.get().(*Term), 64)
		},
		"Bool": func(st *State, c *frame, f *ssa.Function, a []Value) Value {
			v := rv(a)
			if rvKind(v) != reflect.Bool {
				reflectPanic("call of reflect.Value.Bool on " + rvKind(v).String() + " Value")
			}
			return v.get()
		},
		"String": func(st *State, c *frame, f *ssa.Function, a []Value) Value {
			v := rv(a)
			if !v.OK {
				return "<invalid Value>"
			}
			if kindOf(v.T) == reflect.String {
				return v.get()
			}
			return "<" + rtypeString(v.T) + " Value>"
		},
		"Bytes": func(st *State, c *frame, f *ssa.Function, a []Value) Value {
			v := rv(a)
			mustValid(v, "Bytes")
			return v.get()
		},
		"OverflowInt": func(st *State, c *frame, f *ssa.Function, a []Value) Value {
			v := rv(a)
			if !isIntKind(rvKind(v)) {
				reflectPanic("reflect: OverflowInt of non-int type " + rtypeString(v.T))
			}
			w := basicWidth(v.T.Underlying().(*types.Basic))
			x := a[1].(*Term)
			// x != signExtend(truncate(x, w))
			return Not(Eq(x, Resize(Resize(x, w, true), 64, true)))
		},
		"OverflowUint": func(st *State, c *frame, f *ssa.Function, a []Value) Value {
			v := rv(a)
			if !isUintKind(rvKind(v)) {
				reflectPanic("reflect: OverflowUint of non-uint type " + rtypeString(v.T))
			}
			w := basicWidth(v.T.Underlying().(*types.Basic))
			x := a[1].(*Term)
			return Not(Eq(x, Resize(Resize(x, w, false), 64, false)))
		},
		"SetInt": setScalar(isIntKind, "SetInt", func(st *State, d RValue, x Value) Value {
			return Resize(x.(*Term), basicWidth(d.T.Underlying().(*types.Basic)), true)
		}),
		"SetUint": setScalar(isUintKind, "SetUint", func(st *State, d RValue, x Value) Value {
			return Resize(x.(*Term), basicWidth(d.T.Underlying().(*types.Basic)), false)
		}),
		"SetFloat": setScalar(func(k reflect.Kind) bool { return k == reflect.Float32 || k == reflect.Float64 }, "SetFloat", func(st *State, d RValue, x Value) Value {
			return FpToFp(x.(*Term), basicWidth(d.T.Underlying().(*types.Basic)))
		}),
		"SetBool":   setScalar(func(k reflect.Kind) bool { return k == reflect.Bool }, "SetBool", func(st *State, d RValue, x Value) Value { return x }),
		"SetString": setScalar(func(k reflect.Kind) bool { return k == reflect.String }, "SetString", func(st *State, d RValue, x Value) Value { return x }),
		"SetBytes": setScalar(func(k reflect.Kind) bool { return k == reflect.Slice }, "SetBytes", func(st *State, d RValue, x Value) Value { return x }),
		"Convert": func(st *State, c *frame, f *ssa.Function, a []Value) Value {
			v := rv(a)
			mustValid(v, "Convert")
			t := rtArg(a[1]).T
			if !types.ConvertibleTo(v.T, t) {
				reflectPanic("reflect.Value.Convert: value of type " + rtypeString(v.T) + " cannot be converted to type " + rtypeString(t))
			}
			if _, isI := t.Underlying().(*types.Interface); isI {
				return RValue{T: t, V: wrapTo(t, v.T, copyVal(v.get())), OK: true, RO: v.RO}
			}
			return RValue{T: t, V: st.conv(t, v.T, copyVal(v.get())), OK: true, RO: v.RO}
		},
		"MapIndex": func(st *State, c *frame, f *ssa.Function, a []Value) Value {
			v := rv(a)
			mustValid(v, "MapIndex")
			mt, ok := v.T.Underlying().(*types.Map)
			if !ok {
				reflectPanic("call of reflect.Value.MapIndex on " + kindOf(v.T).String() + " Value")
			}
			k := rvArg(a[1])
			key := wrapTo(mt.Key(), k.T, k.get())
			val, found := v.get().(*Map).get(st, key)
			if !found {
				return RValue{}
			}
			return RValue{T: mt.Elem(), V: copyVal(val), OK: true, RO: v.RO}
		},
		"SetMapIndex": func(st *State, c *frame, f *ssa.Function, a []Value) Value {
			v := rv(a)
			mustValid(v, "SetMapIndex")
			mt := v.T.Underlying().(*types.Map)
			k := rvArg(a[1])
			key := wrapTo(mt.Key(), k.T, k.get())
			e := rvArg(a[2])
			m := v.get().(*Map)
			if !e.OK {
				m.del(st, key)
				return nil
			}
			if m == nil {
				panic(goPanic{mkRuntimeError("assignment to entry in nil map")})
			}
			m.set(st, key, wrapTo(mt.Elem(), e.T, copyVal(e.get())))
			return nil
		},
		"MapKeys": func(st *State, c *frame, f *ssa.Function, a []Value) Value {
			v := rv(a)
			mustValid(v, "MapKeys")
			mt := v.T.Underlying().(*types.Map)
			var out []Value
			for _, e := range v.get().(*Map).live() {
				out = append(out, RValue{T: mt.Key(), V: e.K, OK: true})
			}
			if out == nil {
				out = []Value{}
			}
			return Slice{A: out}
		},
		"Call": func(st *State, c *frame, f *ssa.Function, a []Value) Value {
			return st.rvCall(c, rv(a), a[1].(Slice).A, false)
		},
		"CallSlice": func(st *State, c *frame, f *ssa.Function, a []Value) Value {
			return st.rvCall(c, rv(a), a[1].(Slice).A, true)
		},
		"Pointer": func(st *State, c *frame, f *ssa.Function, a []Value) Value {
			v := rv(a)
			mustValid(v, "Pointer")
			switch x := v.get().(type) {
			case *Value:
				if x == nil {
					return BVC(64, 0)
				}
				return BVC(64, st.ptrID(x))
			case *Map:
				if x == nil {
					return BVC(64, 0)
				}
				return BVC(64, st.ptrID(x))
			case Slice:
				if cap(x.A) == 0 {
					if x.Nil {
						return BVC(64, 0)
					}
					return BVC(64, 0xc000000010)
				}
				return BVC(64, st.ptrID(&x.A[:1][0]))
			case *Chan:
				if x == nil {
					return BVC(64, 0)
				}
				return BVC(64, st.ptrID(x))
			case *ssa.Function:
				if x == nil {
					return BVC(64, 0)
				}
				return BVC(64, st.ptrID(x))
			case *Closure:
				return BVC(64, st.ptrID(x.Fn))
			}
			reflectPanic("call of reflect.Value.Pointer on " + kindOf(v.T).String() + " Value")
			return nil
		},
		"Slice": func(st *State, c *frame, f *ssa.Function, a []Value) Value {
			v := rv(a)
			mustValid(v, "Slice")
			i, j := int(st.concInt(a[1].(*Term), "slice i")), int(st.concInt(a[2].(*Term), "slice j"))
			switch x := v.get().(type) {
			case Slice:
				if i < 0 || j < i || j > cap(x.A) {
					reflectPanic("reflect.Value.Slice: slice index out of bounds")
				}
				return RValue{T: v.T, V: Slice{A: x.A[i:j]}, OK: true, RO: v.RO}
			case string:
				if i < 0 || j < i || j > len(x) {
					reflectPanic("reflect.Value.Slice: string slice index out of bounds")
				}
				return RValue{T: v.T, V: x[i:j], OK: true}
			}
			reflectPanic("call of reflect.Value.Slice on " + kindOf(v.T).String() + " Value")
			return nil
		},
		"NumMethod": func(st *State, c *frame, f *ssa.Function, a []Value) Value {
			v := rv(a)
			if !v.OK {
				reflectPanic("call of reflect.Value.NumMethod on zero Value")
			}
			return rtypeMethods["NumMethod"](st, c, f, []Value{rtypeOf(v.T)})
		},
		"Comparable": func(st *State, c *frame, f *ssa.Function, a []Value) Value {
			v := rv(a)
			if !v.OK {
				return TrueT
			}
			return BoolC(types.Comparable(v.T))
		},
	}
	_ = strings.Contains
}
