package main

// Thread model: interpreted goroutines are host goroutines, exactly one runs at
// a time (baton passing). Scheduling decisions are choice decisions of the
// path, bounded by a preemption bound.

import (
	"fmt"
	"go/token"
	"go/types"
	"strings"
	"sync"

	"golang.org/x/tools/go/ssa"
)

type Thread struct {
	id       int
	name     string
	wake     chan struct{}
	done     bool
	exited   bool
	killed   bool
	started  bool
	waitCond func() bool
	waitWhat string
	top      *frame
	isTimer  bool
	noSched  int               // >0: inside an atomic region (no scheduling points)
	yielding  bool
	eagerParent *Thread // set while a freshly spawned thread runs to its first visible operation
	pendW     *waiter  // blocked channel operation (its completion is part of the state)
	pendSel   *selWait // blocked select
	spawnFn   Value
	spawnArgs []Value
	timer     *Timer
	timerGen  int
	held     map[*syncObj]bool // locks held (lockset)
	vc       map[int]int       // vector clock (happens-before for race check)
}

type syncObj struct {
	locked  bool
	owner   *Thread
	readers int
	count   int // waitgroup
	done    bool
	running bool
	vc      map[int]int
}

type Chan struct {
	buf    []Value
	cap    int
	closed bool
	recvq  []*waiter
	sendq  []*waiter
	elem   types.Type
	id     int
	vc     map[int]int
}

type waiter struct {
	th      *Thread
	caseIdx int
	val     Value // value to send / received value
	ok      bool
	done    bool
	ch      *Chan
	sender  bool
	shared  *selWait
}

type selWait struct {
	done    bool
	caseIdx int
	val     Value
	ok      bool
}

type Timer struct {
	armed    bool
	gen      int
	ch       *Chan
	fn       Value
	deadline int64
	fired    bool
	id       int
}

func (st *State) newThread(name string) *Thread {
	t := &Thread{id: len(st.threads), name: name, wake: make(chan struct{}, 1), held: map[*syncObj]bool{}, vc: map[int]int{}}
	t.vc[t.id] = 1
	st.threads = append(st.threads, t)
	return t
}

var pathEndMu sync.Mutex

// runThreads runs the harness entry as the main thread and returns when the
// path has ended.
func (st *State) runThreads(entry *ssa.Function) (status, msg string) {
	main := st.newThread("main")
	st.cur = main
	var endStatus, endMsg string
	ended := false
	var killWG sync.WaitGroup
	endPath := func(self *Thread, s, m string) {
		if ended {
			return
		}
		ended = true
		endStatus, endMsg = s, m
		for _, t := range st.threads {
			if t != self && !t.exited {
				t.killed = true
				killWG.Add(1)
				t.wake <- struct{}{}
			}
		}
		killWG.Wait()
		close(st.finished)
	}
	st.startThread = func(t *Thread, body func()) {
		go func() {
			defer func() {
				r := recover()
				t.done = true
				t.exited = true
				if _, isKill := r.(threadKill); isKill {
					killWG.Done()
					return
				}
				if t.killed {
					// killed while unwinding something else
					killWG.Done()
					return
				}
				switch r := r.(type) {
				case nil:
					if t == main {
						endPath(t, "ok", "")
						return
					}
					// normal goroutine exit: hand the baton on
					defer func() {
						// reschedule may itself end the path (deadlock)
						if r2 := recover(); r2 != nil {
							if _, isKill := r2.(threadKill); isKill {
								killWG.Done()
								return
							}
							s, m := classifyAbort(r2)
							endPath(t, s, m)
						}
					}()
					st.reschedule(true)
				case goPanic:
					st.recordViolation("no-panic", "", "uncaught panic in "+t.name+": "+showValue(r.v)+st.stackOf(t), st.anyModel())
					endPath(t, "exit", "")
				default:
					s, m := classifyAbort(r)
					endPath(t, s, m)
				}
			}()
			<-t.wake
			if t.killed {
				panic(threadKill{})
			}
			t.started = true
			body()
		}()
	}
	st.startThread(main, func() {
		st.callSSA(nil, token.NoPos, entry, nil, nil)
	})
	main.wake <- struct{}{}
	<-st.finished
	return endStatus, endMsg
}

func (st *State) stackOf(t *Thread) string {
	var sb strings.Builder
	n := 0
	for f := t.top; f != nil && n < 12; f = f.caller {
		sb.WriteString("\n    at " + f.fn.String())
		n++
	}
	return sb.String()
}

func (st *State) anyModel() Model {
	if st.model != nil {
		return st.model
	}
	if len(st.varTerms) == 0 {
		return Model{}
	}
	var m Model
	func() {
		defer func() { recover() }()
		_, m = st.query(nil, true)
	}()
	return m
}

func classifyAbort(r interface{}) (string, string) {
	switch r := r.(type) {
	case abortPath:
		return "infeasible", r.why
	case unsupportedErr:
		return "unsupported", r.msg
	case fuelErr:
		return "fuel", r.msg
	case exitPath:
		return "exit", ""
	case prunedPath:
		return "pruned", ""
	case engineBug:
		return "bug", fmt.Sprintf("%v at %s", r.r, r.where)
	}
	return "bug", fmt.Sprint(r)
}

func (st *State) enabled(t *Thread) bool {
	if t.done || t.exited {
		return false
	}
	return t.waitCond == nil || t.waitCond()
}

// schedPoint is called by the running thread before a visible operation.
func (st *State) schedPoint(what string) {
	if len(st.threads) == 1 || st.cur.noSched > 0 {
		return
	}
	if st.cur.eagerParent != nil {
		st.reschedule(false)
		return
	}
	live := 0
	for _, t := range st.threads {
		if !t.done {
			live++
		}
	}
	if live <= 1 {
		return
	}
	st.reschedule(false)
}

// yieldPoint is a voluntary scheduling point (runtime.Gosched, time.Sleep,
// nondet.Yield): switching away here is not a preemption.
func (st *State) yieldPoint() {
	if len(st.threads) == 1 || st.cur.noSched > 0 {
		return
	}
	st.cur.yielding = true
	st.reschedule(false)
	st.cur.yielding = false
}

// block suspends the current thread until cond holds.
func (st *State) block(cond func() bool, what string) {
	if cond() {
		return
	}
	t := st.cur
	if t.noSched > 0 {
		panic(unsupported("blocking operation (" + what + ") inside an atomic region"))
	}
	t.waitCond = cond
	t.waitWhat = what
	st.reschedule(true)
	t.waitCond = nil
	t.waitWhat = ""
}

// handBack returns control to the spawner once a freshly spawned thread has
// reached its first visible operation (or has exited): the code before a
// goroutine's first synchronisation operation is local, so starting a
// goroutine is not a scheduling decision.
func (st *State) handBack(self *Thread) bool {
	p := self.eagerParent
	if p == nil {
		return false
	}
	self.eagerParent = nil
	st.cur = p
	p.wake <- struct{}{}
	if self.done {
		return true
	}
	<-self.wake
	if self.killed {
		panic(threadKill{})
	}
	return true
}

func (st *State) reschedule(selfBlocked bool) {
	self := st.cur
	if self.eagerParent != nil {
		// reached the first visible operation: give control back; when a real
		// scheduling decision later picks this thread it simply continues
		st.handBack(self)
		return
	}
	if st.eng.visited != nil && st.pos >= len(st.prefix) && st.concrete == nil {
		if selfBlocked && !self.done {
			// the blocked thread's wait condition is part of its program point
		}
		if st.seenState() {
			panic(prunedPath{})
		}
	}
	var opts []*Thread
	selfEnabled := !selfBlocked && !self.done
	if selfEnabled {
		opts = append(opts, self)
	}
	for _, t := range st.threads {
		if t != self && st.enabled(t) {
			opts = append(opts, t)
		}
	}
	if len(opts) == 0 {
		if self.done && st.allDone() {
			// last goroutine exited while main is... main must be done too
			return
		}
		st.deadlock()
		return
	}
	var next *Thread
	free := self.yielding
	if selfEnabled && !free && st.preemptions >= st.eng.cfg.Preemptions {
		next = self
	} else if len(opts) == 1 {
		next = opts[0]
	} else {
		i := st.choose(len(opts), "sched")
		next = opts[i]
		if selfEnabled && next != self && !free {
			st.preemptions++
		}
	}
	if next == self {
		return
	}
	st.cur = next
	if len(st.schedule) < 400 {
		st.schedule = append(st.schedule, next.name)
	}
	next.wake <- struct{}{}
	if self.done {
		return
	}
	<-self.wake
	if self.killed {
		panic(threadKill{})
	}
}

func (st *State) allDone() bool {
	for _, t := range st.threads {
		if !t.done {
			return false
		}
	}
	return true
}

func (st *State) deadlock() {
	var sb strings.Builder
	for _, t := range st.threads {
		if !t.done {
			fmt.Fprintf(&sb, "%s blocked on %s; ", t.name, t.waitWhat)
		}
	}
	st.recordViolation("no-deadlock", "", "deadlock: "+sb.String(), st.anyModel())
	panic(exitPath{})
}

// quiesce blocks the caller until no other thread can run.
func (st *State) quiesce() {
	self := st.cur
	st.block(func() bool {
		for _, t := range st.threads {
			if t != self && st.enabled(t) {
				return false
			}
		}
		return true
	}, "quiescence")
}

func (st *State) goStmt(fr *frame, instr *ssa.Go, fn Value, args []Value) {
	name := "go"
	switch f := fn.(type) {
	case *ssa.Function:
		name = f.Name()
	case *Closure:
		name = f.Fn.Name()
	}
	t := st.spawn(fmt.Sprintf("g%d:%s", len(st.threads), name), func() {
		st.callFunc(nil, instr.Pos(), fn, args)
	})
	t.spawnFn, t.spawnArgs = fn, args
	st.startEager(t)
	st.schedPoint("go")
}

func (st *State) spawn(name string, body func()) *Thread {
	if len(st.threads) >= st.eng.cfg.MaxThreads {
		panic(fuelErr{"thread bound exceeded"})
	}
	t := st.newThread(name)
	// happens-before: child inherits parent's clock
	for k, v := range st.cur.vc {
		if v > t.vc[k] {
			t.vc[k] = v
		}
	}
	st.cur.vc[st.cur.id]++
	st.startThread(t, body)
	return t
}

// startEager runs the freshly spawned thread t up to its first visible
// operation, then control comes back to the spawner.
func (st *State) startEager(t *Thread) {
	self := st.cur
	if self.noSched > 0 {
		return
	}
	t.eagerParent = self
	st.cur = t
	t.wake <- struct{}{}
	<-self.wake
	if self.killed {
		panic(threadKill{})
	}
}

// ---------- happens-before helpers (for the race check)

func (st *State) hbRelease(vc *map[int]int) {
	if *vc == nil {
		*vc = map[int]int{}
	}
	for k, v := range st.cur.vc {
		if v > (*vc)[k] {
			(*vc)[k] = v
		}
	}
	st.cur.vc[st.cur.id]++
}

func (st *State) hbAcquire(vc map[int]int) {
	for k, v := range vc {
		if v > st.cur.vc[k] {
			st.cur.vc[k] = v
		}
	}
}

// ---------- channels

func (st *State) newChan(n int, elem types.Type) *Chan {
	st.nextObjID++
	return &Chan{cap: n, elem: elem, id: st.nextObjID}
}

func popWaiter(q *[]*waiter) *waiter {
	for len(*q) > 0 {
		w := (*q)[0]
		*q = (*q)[1:]
		if w.done || (w.shared != nil && w.shared.done) {
			continue
		}
		return w
	}
	return nil
}

func liveWaiters(q []*waiter) int {
	n := 0
	for _, w := range q {
		if !w.done && !(w.shared != nil && w.shared.done) {
			n++
		}
	}
	return n
}

func (w *waiter) complete(v Value, ok bool) {
	w.done = true
	w.val = v
	w.ok = ok
	if w.shared != nil {
		w.shared.done = true
		w.shared.caseIdx = w.caseIdx
		w.shared.val = v
		w.shared.ok = ok
	}
}

func (st *State) canSend(ch *Chan) bool {
	if ch == nil {
		return false
	}
	return ch.closed || liveWaiters(ch.recvq) > 0 || len(ch.buf) < ch.cap
}

func (st *State) canRecv(ch *Chan) bool {
	if ch == nil {
		return false
	}
	return len(ch.buf) > 0 || liveWaiters(ch.sendq) > 0 || ch.closed
}

// doSend performs a send that is known to be possible.
func (st *State) doSend(ch *Chan, v Value) {
	if ch.closed {
		panic(goPanic{mkRuntimeError("send on closed channel")})
	}
	st.hbRelease(&ch.vc)
	if w := popWaiter(&ch.recvq); w != nil {
		w.complete(v, true)
		return
	}
	ch.buf = append(ch.buf, v)
}

func (st *State) doRecv(ch *Chan) (Value, bool) {
	st.hbAcquire(ch.vc)
	if len(ch.buf) > 0 {
		v := ch.buf[0]
		ch.buf = ch.buf[1:]
		if w := popWaiter(&ch.sendq); w != nil {
			ch.buf = append(ch.buf, w.val)
			w.complete(nil, true)
		}
		return v, true
	}
	if w := popWaiter(&ch.sendq); w != nil {
		v := w.val
		w.complete(nil, true)
		return v, true
	}
	if ch.closed {
		return zero(ch.elem), false
	}
	panic("doRecv: not ready")
}

func (st *State) chanSend(ch *Chan, v Value) {
	st.schedPoint("chan send")
	if ch == nil {
		st.block(func() bool { return false }, "send on nil channel")
	}
	if st.canSend(ch) {
		st.doSend(ch, v)
		return
	}
	w := &waiter{th: st.cur, val: v, ch: ch, sender: true}
	ch.sendq = append(ch.sendq, w)
	st.hbRelease(&ch.vc)
	st.cur.pendW = w
	st.block(func() bool { return w.done || ch.closed }, fmt.Sprintf("chan send (chan#%d)", ch.id))
	st.cur.pendW = nil
	if !w.done {
		w.done = true
		panic(goPanic{mkRuntimeError("send on closed channel")})
	}
}

func (st *State) chanRecv(ch *Chan) (Value, bool) {
	st.schedPoint("chan recv")
	if ch == nil {
		st.block(func() bool { return false }, "receive from nil channel")
	}
	if st.canRecv(ch) {
		return st.doRecv(ch)
	}
	w := &waiter{th: st.cur, ch: ch}
	ch.recvq = append(ch.recvq, w)
	st.cur.pendW = w
	st.block(func() bool { return w.done || ch.closed }, fmt.Sprintf("chan receive (chan#%d)", ch.id))
	st.cur.pendW = nil
	st.hbAcquire(ch.vc)
	if w.done {
		return w.val, w.ok
	}
	w.done = true
	return zero(ch.elem), false
}

func (st *State) chanClose(ch *Chan) {
	st.schedPoint("chan close")
	if ch == nil {
		panic(goPanic{mkRuntimeError("close of nil channel")})
	}
	if ch.closed {
		panic(goPanic{mkRuntimeError("close of closed channel")})
	}
	st.hbRelease(&ch.vc)
	ch.closed = true
	for {
		w := popWaiter(&ch.recvq)
		if w == nil {
			break
		}
		w.complete(zero(ch.elem), false)
	}
}

func (st *State) selectOp(fr *frame, instr *ssa.Select) Value {
	st.schedPoint("select")
	type cs struct {
		ch   *Chan
		send bool
		val  Value
	}
	cases := make([]cs, len(instr.States))
	for i, s := range instr.States {
		c := cs{ch: fr.get(s.Chan).(*Chan), send: s.Dir == types.SendOnly}
		if c.send {
			c.val = fr.get(s.Send)
		}
		cases[i] = c
	}
	result := func(chosen int, v Value, ok bool) Value {
		r := Tuple{BVC(64, uint64(int64(chosen))), BoolC(ok)}
		for i, s := range instr.States {
			if s.Dir == types.RecvOnly {
				if i == chosen && v != nil {
					r = append(r, v)
				} else {
					r = append(r, zero(s.Chan.Type().Underlying().(*types.Chan).Elem()))
				}
			}
		}
		return r
	}
	var ready []int
	for i, c := range cases {
		if c.ch == nil {
			continue
		}
		if c.send && st.canSend(c.ch) {
			ready = append(ready, i)
		} else if !c.send && st.canRecv(c.ch) {
			ready = append(ready, i)
		}
	}
	if len(ready) > 0 {
		k := ready[st.choose(len(ready), "select")]
		c := cases[k]
		if c.send {
			st.doSend(c.ch, c.val)
			return result(k, nil, false)
		}
		v, ok := st.doRecv(c.ch)
		return result(k, v, ok)
	}
	if !instr.Blocking {
		return result(-1, nil, false)
	}
	sh := &selWait{}
	for i, c := range cases {
		if c.ch == nil {
			continue
		}
		w := &waiter{th: st.cur, caseIdx: i, ch: c.ch, shared: sh, sender: c.send, val: c.val}
		if c.send {
			c.ch.sendq = append(c.ch.sendq, w)
			st.hbRelease(&c.ch.vc)
		} else {
			c.ch.recvq = append(c.ch.recvq, w)
		}
	}
	closedCase := func() int {
		for i, c := range cases {
			if c.ch != nil && c.ch.closed {
				return i
			}
		}
		return -1
	}
	st.cur.pendSel = sh
	st.block(func() bool { return sh.done || closedCase() >= 0 }, "select")
	st.cur.pendSel = nil
	if sh.done {
		c := cases[sh.caseIdx]
		if !c.send {
			st.hbAcquire(c.ch.vc)
		}
		return result(sh.caseIdx, sh.val, sh.ok)
	}
	k := closedCase()
	sh.done = true
	if cases[k].send {
		panic(goPanic{mkRuntimeError("send on closed channel")})
	}
	st.hbAcquire(cases[k].ch.vc)
	return result(k, zero(cases[k].ch.elem), false)
}

// ---------- sync objects

func (st *State) syncObj(p *Value) *syncObj {
	if p == nil {
		panic(goPanic{mkRuntimeError("invalid memory address or nil pointer dereference (sync object)")})
	}
	o := st.syncObjs[p]
	if o == nil {
		o = &syncObj{}
		st.syncObjs[p] = o
	}
	return o
}

func (st *State) mutexLock(p *Value) {
	st.schedPoint("mutex lock")
	o := st.syncObj(p)
	st.block(func() bool { return !o.locked && o.readers == 0 }, "mutex lock")
	o.locked = true
	o.owner = st.cur
	st.cur.held[o] = true
	st.hbAcquire(o.vc)
}

func (st *State) mutexTryLock(p *Value) bool {
	st.schedPoint("mutex trylock")
	o := st.syncObj(p)
	if o.locked || o.readers > 0 {
		return false
	}
	o.locked = true
	o.owner = st.cur
	st.cur.held[o] = true
	st.hbAcquire(o.vc)
	return true
}

func (st *State) mutexUnlock(p *Value) {
	o := st.syncObj(p)
	if !o.locked {
		panic(goPanic{mkRuntimeError("sync: unlock of unlocked mutex")})
	}
	st.hbRelease(&o.vc)
	o.locked = false
	if o.owner != nil {
		delete(o.owner.held, o)
	}
	o.owner = nil
}

func (st *State) rwRLock(p *Value) {
	st.schedPoint("rwmutex rlock")
	o := st.syncObj(p)
	st.block(func() bool { return !o.locked }, "rwmutex rlock")
	o.readers++
	st.cur.held[o] = true
	st.hbAcquire(o.vc)
}

func (st *State) rwRUnlock(p *Value) {
	o := st.syncObj(p)
	if o.readers <= 0 {
		panic(goPanic{mkRuntimeError("sync: RUnlock of unlocked RWMutex")})
	}
	st.hbRelease(&o.vc)
	o.readers--
	delete(st.cur.held, o)
}

func (st *State) wgAdd(p *Value, n int64) {
	o := st.syncObj(p)
	st.hbRelease(&o.vc)
	o.count += int(n)
	if o.count < 0 {
		panic(goPanic{mkRuntimeError("sync: negative WaitGroup counter")})
	}
}

func (st *State) wgWait(p *Value) {
	st.schedPoint("waitgroup wait")
	o := st.syncObj(p)
	st.block(func() bool { return o.count == 0 }, "waitgroup wait")
	st.hbAcquire(o.vc)
}

func (st *State) onceDo(p *Value, f Value, fr *frame) {
	st.schedPoint("once")
	o := st.syncObj(p)
	if o.done {
		st.hbAcquire(o.vc)
		return
	}
	if o.running {
		st.block(func() bool { return o.done }, "once")
		st.hbAcquire(o.vc)
		return
	}
	o.running = true
	defer func() {
		o.done = true
		st.hbRelease(&o.vc)
	}()
	st.callFunc(fr, token.NoPos, f, nil)
}

// ---------- timers

func (st *State) newTimer(d int64, ch *Chan, fn Value) *Timer {
	st.nextObjID++
	tm := &Timer{ch: ch, fn: fn, id: st.nextObjID}
	st.timers = append(st.timers, tm)
	st.armTimer(tm, d)
	return tm
}

func (st *State) armTimer(tm *Timer, d int64) {
	tm.gen++
	tm.armed = true
	tm.fired = false
	tm.deadline = st.now + d
	gen := tm.gen
	if st.eng.cfg.NoTimers || (st.eng.cfg.TimerHorizonNs > 0 && d > st.eng.cfg.TimerHorizonNs) {
		return
	}
	t := st.spawn(fmt.Sprintf("timer#%d.%d", tm.id, gen), func() {
		if !tm.armed || tm.gen != gen {
			return
		}
		tm.armed = false
		tm.fired = true
		if st.now < tm.deadline {
			st.now = tm.deadline
		}
		if tm.fn != nil {
			st.callFunc(nil, token.NoPos, tm.fn, nil)
			return
		}
		if len(tm.ch.buf) < tm.ch.cap || liveWaiters(tm.ch.recvq) > 0 {
			st.doSend(tm.ch, st.timeValue(st.now))
		}
	})
	t.isTimer = true
	t.timer, t.timerGen = tm, gen
	t.waitCond = func() bool { return true }
	// a stopped or re-armed timer's thread is no longer schedulable
	t.waitCond = func() bool {
		if !tm.armed || tm.gen != gen {
			t.done = true
			return false
		}
		return true
	}
}

func (st *State) stopTimer(tm *Timer) bool {
	was := tm.armed
	tm.armed = false
	return was
}

func (st *State) timeValue(ns int64) Value {
	// time.Time{wall, ext, loc} without monotonic reading: ext = seconds since year 1
	const unixToInternal = (1969*365 + 1969/4 - 1969/100 + 1969/400) * 86400
	sec := ns/1e9 + unixToInternal
	nsec := ns % 1e9
	return Struct{BVC(64, uint64(nsec)), BVC(64, uint64(sec)), (*Value)(nil)}
}

// ---------- lockset / happens-before race check on maps and selected cells

type accessInfo struct {
	lastWrite   map[int]int // vector clock of last write
	lastWriter  string
	reads       map[int]map[int]int // per-thread read clocks
	readerNames map[int]string
}

func (st *State) noteAccess(obj interface{}, write bool) {
	if !st.eng.cfg.RaceCheck || len(st.threads) <= 1 {
		return
	}
	m, isMap := obj.(*Map)
	if !isMap || m == nil {
		return
	}
	ai := st.accessLog[obj]
	if ai == nil {
		ai = &accessInfo{reads: map[int]map[int]int{}, readerNames: map[int]string{}}
		st.accessLog[obj] = ai
	}
	cur := st.cur
	hb := func(vc map[int]int) bool { // vc happens-before cur?
		for k, v := range vc {
			if v > cur.vc[k] {
				return false
			}
		}
		return true
	}
	where := ""
	if cur.top != nil {
		where = cur.top.fn.String()
	}
	if ai.lastWrite != nil && !hb(ai.lastWrite) {
		st.races = append(st.races, fmt.Sprintf("map access in %s races with write in %s", where, ai.lastWriter))
	}
	if write {
		for tid, vc := range ai.reads {
			if tid != cur.id && !hb(vc) {
				st.races = append(st.races, fmt.Sprintf("map write in %s races with read in %s", where, ai.readerNames[tid]))
			}
		}
		ai.lastWrite = copyVC(cur.vc)
		ai.lastWriter = where
		ai.reads = map[int]map[int]int{}
	} else {
		ai.reads[cur.id] = copyVC(cur.vc)
		ai.readerNames[cur.id] = where
	}
}

func copyVC(vc map[int]int) map[int]int {
	c := make(map[int]int, len(vc))
	for k, v := range vc {
		c[k] = v
	}
	return c
}
