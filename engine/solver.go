package main

// Solver back end: one long-lived child process per worker and kind
// (z3 -in for bit-vector queries, cvc5 --incremental for queries with
// floating-point terms). Terms are emitted as define-funs so DAG sharing is kept.

import (
	"bufio"
	"fmt"
	"io"
	"os"
	"os/exec"
	"strconv"
	"strings"
	"time"
)

type SolverStats struct {
	Queries   int
	Sat       int
	Unsat     int
	Unknown   int
	Errors    int
	Seconds   float64
	ByKind    map[string]int
	CacheHits int
}

func (s *SolverStats) add(o *SolverStats) {
	s.Queries += o.Queries
	s.Sat += o.Sat
	s.Unsat += o.Unsat
	s.Unknown += o.Unknown
	s.Errors += o.Errors
	s.Seconds += o.Seconds
	s.CacheHits += o.CacheHits
	if s.ByKind == nil {
		s.ByKind = map[string]int{}
	}
	for k, v := range o.ByKind {
		s.ByKind[k] += v
	}
}

type proc struct {
	kind    string
	cmd     *exec.Cmd
	in      io.WriteCloser
	out     *bufio.Reader
	defined map[int64]bool
	decl    map[string]bool
	nsent   int // number of pc conjuncts asserted
	timeout int // ms
}

func startProc(kind string, timeoutMs int) (*proc, error) {
	var cmd *exec.Cmd
	switch kind {
	case "z3":
		cmd = exec.Command("z3", "-in")
	case "z3-new":
		cmd = exec.Command("z3-new", "-in")
	case "cvc5":
		cmd = exec.Command("cvc5", "--incremental", "--produce-models", "--lang=smt2", fmt.Sprintf("--tlimit-per=%d", timeoutMs))
	default:
		return nil, fmt.Errorf("unknown solver %s", kind)
	}
	in, err := cmd.StdinPipe()
	if err != nil {
		return nil, err
	}
	out, err := cmd.StdoutPipe()
	if err != nil {
		return nil, err
	}
	cmd.Stderr = cmd.Stdout
	if err := cmd.Start(); err != nil {
		return nil, err
	}
	p := &proc{kind: kind, cmd: cmd, in: in, out: bufio.NewReaderSize(out, 1<<16), timeout: timeoutMs}
	p.reset(true)
	return p, nil
}

var smtLog io.Writer

func (p *proc) send(s string) {
	io.WriteString(p.in, s)
	io.WriteString(p.in, "\n")
	if smtLog != nil {
		io.WriteString(smtLog, s+"\n")
	}
}

func (p *proc) reset(first bool) {
	p.defined = map[int64]bool{}
	p.decl = map[string]bool{}
	p.nsent = 0
	if !first {
		p.send("(reset)")
	}
	if p.kind == "cvc5" {
		p.send("(set-logic ALL)")
	} else {
		p.send(fmt.Sprintf("(set-option :timeout %d)", p.timeout))
		if l := os.Getenv("VERIF_Z3_LOGIC"); l != "" {
			p.send("(set-logic " + l + ")")
		}
	}
}

func (p *proc) kill() {
	if p == nil {
		return
	}
	p.in.Close()
	p.cmd.Process.Kill()
	p.cmd.Wait()
}

// define emits declarations / definitions for t's sub-DAG.
func (p *proc) define(t *Term) {
	switch t.Op {
	case OConst:
		return
	case OVar:
		if !p.decl[t.Name] {
			p.decl[t.Name] = true
			p.send(fmt.Sprintf("(declare-const |%s| %s)", t.Name, t.Sort))
		}
		return
	}
	if p.defined[t.ID] {
		return
	}
	for _, a := range t.Args {
		p.define(a)
	}
	p.defined[t.ID] = true
	p.send(fmt.Sprintf("(define-fun t%d () %s %s)", t.ID, t.Sort, t.body()))
}

func (p *proc) assert(t *Term) {
	p.define(t)
	p.send("(assert " + t.ref() + ")")
}

// readSexp reads one balanced s-expression or atom line.
func (p *proc) readResp() (string, error) {
	var sb strings.Builder
	depth := 0
	started := false
	for {
		line, err := p.out.ReadString('\n')
		if err != nil {
			return sb.String(), err
		}
		inStr := false
		for _, c := range line {
			switch {
			case c == '"':
				inStr = !inStr
			case inStr:
			case c == '(':
				depth++
			case c == ')':
				depth--
			}
		}
		if strings.TrimSpace(line) != "" {
			started = true
		}
		sb.WriteString(line)
		if started && depth <= 0 {
			return strings.TrimSpace(sb.String()), nil
		}
	}
}

// check returns "sat", "unsat", "unknown" or "error: ...".
// If vars != nil and the answer is sat, the model is returned.
func (p *proc) check(extra *Term, vars []*Term) (string, Model) {
	if extra != nil {
		p.define(extra)
	}
	for _, v := range vars {
		p.define(v)
	}
	p.send("(push 1)")
	if extra != nil {
		p.send("(assert " + extra.ref() + ")")
	}
	p.send("(check-sat)")
	resp, err := p.readResp()
	if err != nil {
		return "error: solver died: " + err.Error() + " " + resp, nil
	}
	var model Model
	res := resp
	switch {
	case resp == "sat":
		if len(vars) > 0 {
			var sb strings.Builder
			sb.WriteString("(get-value (")
			for _, v := range vars {
				sb.WriteString(v.ref())
				sb.WriteString(" ")
			}
			sb.WriteString("))")
			p.send(sb.String())
			mresp, err := p.readResp()
			if err != nil || strings.Contains(mresp, "(error") {
				res = "error: get-value: " + mresp
			} else {
				model, err = parseModel(mresp, vars)
				if err != nil {
					res = "error: parse model: " + err.Error() + ": " + mresp
				}
			}
		} else {
			model = Model{}
		}
	case resp == "unsat", resp == "unknown":
	case strings.HasPrefix(resp, "timeout"):
		res = "unknown"
	default:
		res = "error: " + resp
	}
	p.send("(pop 1)")
	return res, model
}

// ---------- model parsing

type sexp struct {
	atom string
	list []*sexp
}

func parseSexp(s string) (*sexp, error) {
	pos := 0
	var parse func() (*sexp, error)
	skip := func() {
		for pos < len(s) && (s[pos] == ' ' || s[pos] == '\n' || s[pos] == '\t' || s[pos] == '\r') {
			pos++
		}
	}
	parse = func() (*sexp, error) {
		skip()
		if pos >= len(s) {
			return nil, fmt.Errorf("eof")
		}
		if s[pos] == '(' {
			pos++
			n := &sexp{list: []*sexp{}}
			for {
				skip()
				if pos >= len(s) {
					return nil, fmt.Errorf("eof in list")
				}
				if s[pos] == ')' {
					pos++
					return n, nil
				}
				c, err := parse()
				if err != nil {
					return nil, err
				}
				n.list = append(n.list, c)
			}
		}
		start := pos
		if s[pos] == '|' {
			pos++
			for pos < len(s) && s[pos] != '|' {
				pos++
			}
			pos++
			return &sexp{atom: s[start:pos]}, nil
		}
		for pos < len(s) && !strings.ContainsRune(" \n\t\r()", rune(s[pos])) {
			pos++
		}
		return &sexp{atom: s[start:pos]}, nil
	}
	return parse()
}

func sexpBits(e *sexp) (uint64, int, error) {
	if e.list == nil {
		a := e.atom
		switch {
		case a == "true":
			return 1, 1, nil
		case a == "false":
			return 0, 1, nil
		case strings.HasPrefix(a, "#x"):
			v, err := strconv.ParseUint(a[2:], 16, 64)
			return v, 4 * (len(a) - 2), err
		case strings.HasPrefix(a, "#b"):
			v, err := strconv.ParseUint(a[2:], 2, 64)
			return v, len(a) - 2, err
		}
		return 0, 0, fmt.Errorf("atom %q", a)
	}
	l := e.list
	if len(l) == 3 && l[0].atom == "_" && strings.HasPrefix(l[1].atom, "bv") {
		v, err := strconv.ParseUint(l[1].atom[2:], 10, 64)
		w, _ := strconv.Atoi(l[2].atom)
		return v, w, err
	}
	if len(l) == 4 && l[0].atom == "fp" {
		s, _, e1 := sexpBits(l[1])
		ex, ew, e2 := sexpBits(l[2])
		m, mw, e3 := sexpBits(l[3])
		if e1 != nil || e2 != nil || e3 != nil {
			return 0, 0, fmt.Errorf("fp parts")
		}
		return s<<uint(ew+mw) | ex<<uint(mw) | m, 1 + ew + mw, nil
	}
	if len(l) == 4 && l[0].atom == "_" {
		eb, _ := strconv.Atoi(l[2].atom)
		sb, _ := strconv.Atoi(l[3].atom)
		w := eb + sb
		expAll := (uint64(1)<<uint(eb) - 1) << uint(sb-1)
		switch l[1].atom {
		case "+zero":
			return 0, w, nil
		case "-zero":
			return 1 << uint(w-1), w, nil
		case "+oo":
			return expAll, w, nil
		case "-oo":
			return 1<<uint(w-1) | expAll, w, nil
		case "NaN":
			return expAll | 1<<uint(sb-2), w, nil
		}
	}
	return 0, 0, fmt.Errorf("unhandled value")
}

func parseModel(resp string, vars []*Term) (Model, error) {
	e, err := parseSexp(resp)
	if err != nil {
		return nil, err
	}
	if len(e.list) != len(vars) {
		return nil, fmt.Errorf("expected %d values, got %d", len(vars), len(e.list))
	}
	m := Model{}
	for i, pair := range e.list {
		if len(pair.list) != 2 {
			return nil, fmt.Errorf("bad pair")
		}
		v, _, err := sexpBits(pair.list[1])
		if err != nil {
			return nil, err
		}
		m[vars[i].Name] = v
	}
	return m, nil
}

// ---------- PathSolver: the per-worker facade used by the interpreter

type PathSolver struct {
	z3      *proc
	cvc     *proc
	alt     *proc // cross-check solver (z3-new)
	active  *proc
	timeout int
	stats   SolverStats
	xcheck  int // cross-check every n-th query (0 = off)
	xcount  int
	xdis    int
	log     io.Writer
}

func NewPathSolver(timeoutMs int, xcheck int) *PathSolver {
	return &PathSolver{timeout: timeoutMs, xcheck: xcheck, stats: SolverStats{ByKind: map[string]int{}}}
}

func (ps *PathSolver) Close() {
	ps.z3.kill()
	ps.cvc.kill()
	ps.alt.kill()
	ps.z3, ps.cvc, ps.alt, ps.active = nil, nil, nil, nil
}

// beginPath must be called at the start of each path.
func (ps *PathSolver) beginPath() {
	ps.active = nil
}

func (ps *PathSolver) ensure(fp bool, pc []*Term) *proc {
	want := "z3"
	if fp {
		want = "cvc5"
	}
	var p *proc
	var err error
	if want == "z3" {
		if ps.z3 == nil {
			ps.z3, err = startProc("z3", ps.timeout)
			if err != nil {
				panic(err)
			}
			ps.z3.nsent = -1
		}
		p = ps.z3
	} else {
		if ps.cvc == nil {
			ps.cvc, err = startProc("cvc5", ps.timeout)
			if err != nil {
				panic(err)
			}
			ps.cvc.nsent = -1
		}
		p = ps.cvc
	}
	if ps.active != p || p.nsent < 0 {
		p.reset(false)
		ps.active = p
	}
	for p.nsent < len(pc) {
		p.assert(pc[p.nsent])
		p.nsent++
	}
	return p
}

// Check decides sat(pc ∧ extra). vars, when non-nil, requests a model.
func (ps *PathSolver) Check(pc []*Term, pcFP bool, extra *Term, vars []*Term) (string, Model) {
	fp := pcFP || (extra != nil && extra.hasFP)
	var p *proc
	if ps.active != nil && ps.active.kind == "cvc5" {
		fp = true // stay on cvc5 once switched on this path
	}
	p = ps.ensure(fp, pc)
	t0 := time.Now()
	res, m := p.check(extra, vars)
	dt := time.Since(t0).Seconds()
	ps.stats.Queries++
	ps.stats.Seconds += dt
	ps.stats.ByKind[p.kind]++
	switch {
	case res == "sat":
		ps.stats.Sat++
	case res == "unsat":
		ps.stats.Unsat++
	case res == "unknown":
		ps.stats.Unknown++
	default:
		ps.stats.Errors++
		// a dead or confused solver process is replaced
		if p == ps.z3 {
			ps.z3.kill()
			ps.z3 = nil
		} else {
			ps.cvc.kill()
			ps.cvc = nil
		}
		ps.active = nil
	}
	if dt > 0.3 && os.Getenv("VERIF_QLOG") != "" {
		ex := ""
		if extra != nil {
			ex = extra.String()
		}
		fmt.Fprintf(os.Stderr, "slow query %s %.3fs %s pc=%d extra=%s\n", p.kind, dt, res, len(pc), ex)
	}
	if ps.xcheck > 0 && !fp && (res == "sat" || res == "unsat") {
		ps.xcount++
		if ps.xcount%ps.xcheck == 0 {
			ps.crossCheck(pc, extra, res)
		}
	}
	return res, m
}

func (ps *PathSolver) crossCheck(pc []*Term, extra *Term, want string) {
	var err error
	if ps.alt == nil {
		ps.alt, err = startProc("z3-new", ps.timeout)
		if err != nil {
			return
		}
	}
	ps.alt.reset(false)
	for _, c := range pc {
		ps.alt.assert(c)
	}
	res, _ := ps.alt.check(extra, nil)
	ps.stats.ByKind["xcheck"]++
	if (res == "sat" || res == "unsat") && res != want {
		ps.xdis++
	}
	if strings.HasPrefix(res, "error") {
		ps.alt.kill()
		ps.alt = nil
	}
}
