package main

// State hashing for the thread model: at every scheduling point beyond the
// replayed prefix the global state (thread stacks, reachable heap, sync
// objects, timers, path condition) is hashed canonically; a state that has
// already been reached with at least as much preemption budget left is not
// explored again (its successors are explored by the path that reached it
// first). This collapses the diamonds produced by independent operations of
// different goroutines. A hash collision could hide a state: 128-bit hashes
// make that negligible and it is listed under the trusted base.

import (
	"go/types"
	"math/bits"
	"sort"
	"sync"
	"unsafe"

	"golang.org/x/tools/go/ssa"
)

type hash128 struct{ a, b uint64 }

type hasher struct {
	st    *State
	h     hash128
	cells map[*Value]int
	objs  map[interface{}]int
	n     int
	depth int
}

func (h *hasher) w(x uint64) {
	h.h.a = (h.h.a ^ x) * 0x9E3779B97F4A7C15
	h.h.a = bits.RotateLeft64(h.h.a, 27)
	h.h.b = (h.h.b + x*0xC2B2AE3D27D4EB4F) ^ bits.RotateLeft64(h.h.b, 31)
	h.h.b *= 0x165667B19E3779F9
}

func (h *hasher) ws(s string) {
	h.w(uint64(len(s)) | 0x5300000000000000)
	for i := 0; i < len(s); i++ {
		h.w(uint64(s[i]))
	}
}

func termHash(t *Term, depth int) uint64 {
	if t.hash != 0 {
		return t.hash
	}
	x := uint64(t.Op)*0x9E3779B97F4A7C15 ^ uint64(t.Sort.K)<<56 ^ uint64(t.Sort.W)<<48 ^ uint64(t.A)<<8 ^ uint64(t.B)
	switch t.Op {
	case OConst:
		x ^= t.Val * 0xC2B2AE3D27D4EB4F
	case OVar:
		for i := 0; i < len(t.Name); i++ {
			x = (x ^ uint64(t.Name[i])) * 0x100000001b3
		}
	default:
		if depth > 0 {
			for _, a := range t.Args {
				x = bits.RotateLeft64(x, 13) ^ termHash(a, depth-1)*0x9E3779B97F4A7C15
			}
		}
	}
	if x == 0 {
		x = 1
	}
	if t.Op != OConst && depth >= 8 {
		t.hash = x
	}
	return x
}

func ptrBits(p unsafe.Pointer) uint64 { return uint64(uintptr(p)) }

func (h *hasher) obj(key interface{}) (int, bool) {
	if id, ok := h.objs[key]; ok {
		return id, true
	}
	h.n++
	h.objs[key] = h.n
	return h.n, false
}

func (h *hasher) cell(p *Value) {
	if p == nil {
		h.w(0x10)
		return
	}
	if id, ok := h.cells[p]; ok {
		h.w(0x11)
		h.w(uint64(id))
		return
	}
	h.n++
	h.cells[p] = h.n
	h.w(0x12)
	if so := h.st.syncObjs[p]; so != nil {
		h.w(0x13)
		var f uint64
		if so.locked {
			f |= 1
		}
		if so.done {
			f |= 2
		}
		if so.running {
			f |= 4
		}
		h.w(f | uint64(so.readers)<<8 | uint64(uint32(so.count))<<24)
	}
	if tm := h.st.timerByPtr[p]; tm != nil {
		h.w(0x14)
		var f uint64
		if tm.armed {
			f |= 1
		}
		if tm.fired {
			f |= 2
		}
		h.w(f)
	}
	h.value(*p)
}

func (h *hasher) value(v Value) {
	h.depth++
	defer func() { h.depth-- }()
	if h.depth > 200 {
		h.w(0xdead)
		return
	}
	switch x := v.(type) {
	case nil:
		h.w(0x20)
	case *Term:
		h.w(0x21)
		h.w(termHash(x, 12))
	case string:
		h.ws(x)
	case *SymStr:
		h.w(0x22)
		h.w(termHash(x.ID, 12))
		h.w(uint64(len(x.Tab)))
	case *Value:
		h.cell(x)
	case Struct:
		h.w(0x23)
		h.w(uint64(len(x)))
		for i := range x {
			// field cells are addressable: name them
			h.fieldCell(&x[i])
		}
	case Array:
		h.w(0x24)
		h.w(uint64(len(x)))
		for i := range x {
			h.fieldCell(&x[i])
		}
	case Tuple:
		h.w(0x25)
		for _, e := range x {
			h.value(e)
		}
	case Slice:
		if x.Nil {
			h.w(0x26)
			return
		}
		h.w(0x27)
		h.w(uint64(len(x.A)))
		h.w(uint64(cap(x.A)))
		full := x.A[:cap(x.A)]
		for i := range full {
			if i >= len(x.A) && i > len(x.A)+4 {
				break
			}
			h.fieldCell(&full[i])
		}
	case *Map:
		if x == nil {
			h.w(0x28)
			return
		}
		id, seen := h.obj(x)
		h.w(0x29)
		h.w(uint64(id))
		if seen {
			return
		}
		for _, e := range x.entries {
			if e.Deleted {
				continue
			}
			h.value(e.K)
			h.value(e.V)
		}
		h.w(0x2a)
	case *Chan:
		if x == nil {
			h.w(0x2b)
			return
		}
		id, seen := h.obj(x)
		h.w(0x2c)
		h.w(uint64(id))
		if seen {
			return
		}
		var f uint64
		if x.closed {
			f = 1
		}
		h.w(f | uint64(x.cap)<<8 | uint64(liveWaiters(x.recvq))<<24 | uint64(liveWaiters(x.sendq))<<40)
		for _, e := range x.buf {
			h.value(e)
		}
		for _, wt := range x.sendq {
			if !wt.done && !(wt.shared != nil && wt.shared.done) {
				h.value(wt.val)
			}
		}
	case Iface:
		if x.T == nil {
			h.w(0x2d)
			return
		}
		h.w(0x2e)
		h.w(uint64(typeID(x.T)))
		h.value(x.V)
	case *ssa.Function:
		h.w(0x2f)
		h.w(ptrBits(unsafe.Pointer(x)))
	case *ssa.Builtin:
		h.w(0x30)
		h.ws(x.Name())
	case *Closure:
		if x == nil {
			h.w(0x31)
			return
		}
		id, seen := h.obj(x)
		h.w(0x32)
		h.w(uint64(id))
		if seen {
			return
		}
		h.w(ptrBits(unsafe.Pointer(x.Fn)))
		for _, e := range x.Env {
			h.value(e)
		}
	case *NativeFn:
		h.w(0x33)
		h.ws(x.Name)
	case *RType:
		h.w(0x34)
		h.w(uint64(typeID(x.T)))
	case RValue:
		h.w(0x35)
		if !x.OK {
			return
		}
		h.w(uint64(typeID(x.T)))
		if x.Addr != nil {
			h.cell(x.Addr)
		} else {
			h.value(x.V)
		}
	case Poison:
		h.w(0x36)
	case iterator:
		switch it := x.(type) {
		case *mapIter:
			h.w(0x37)
			h.w(uint64(it.i))
			h.value(it.m)
		case *strIter:
			h.w(0x38)
			h.w(uint64(it.i))
		}
	default:
		h.w(0x3f)
	}
}

// fieldCell hashes an addressable cell in place (assigning it an identity so
// that pointers to it hash consistently).
func (h *hasher) fieldCell(p *Value) {
	if id, ok := h.cells[p]; ok {
		// already visited through a pointer: content was hashed there
		h.w(0x15)
		h.w(uint64(id))
		return
	}
	// only give identities to cells when something may point at them: always,
	// cheaply, by registering the address
	h.n++
	h.cells[p] = h.n
	if so := h.st.syncObjs[p]; so != nil {
		h.w(0x13)
		var f uint64
		if so.locked {
			f |= 1
		}
		if so.done {
			f |= 2
		}
		if so.running {
			f |= 4
		}
		h.w(f | uint64(so.readers)<<8 | uint64(uint32(so.count))<<24)
	}
	h.value(*p)
}

func (h *hasher) frames(t *Thread) {
	for fr := t.top; fr != nil; fr = fr.caller {
		h.w(0x40)
		h.w(ptrBits(unsafe.Pointer(fr.fn)))
		if fr.block != nil {
			h.w(uint64(fr.block.Index)<<20 | uint64(fr.pc))
		}
		if fr.prevBlock != nil {
			h.w(uint64(fr.prevBlock.Index))
		}
		var f uint64
		if fr.panicking {
			f = 1
		}
		h.w(f)
		live := fr.st.eng.liveAt(fr)
		for i, v := range fr.env {
			if live != nil && !live[i] {
				continue
			}
			if v == nil {
				continue
			}
			h.w(uint64(i))
			h.value(v)
		}
		for d := fr.defers; d != nil; d = d.tail {
			h.w(0x41)
			h.value(d.fn)
			for _, a := range d.args {
				h.value(a)
			}
		}
		if fr.panicking {
			h.value(fr.panicVal)
		}
	}
}

func (h *hasher) thread(t *Thread) {
	var f uint64
	if t.done {
		f |= 1
	}
	if t.started {
		f |= 2
	}
	if t.isTimer {
		f |= 4
	}
	h.w(0x50 | f<<8 | uint64(t.noSched)<<16)
	if !t.started {
		h.value(t.spawnFn)
		for _, a := range t.spawnArgs {
			h.value(a)
		}
		if t.timer != nil {
			var tf uint64
			if t.timer.armed {
				tf |= 1
			}
			h.w(0x51 | tf<<8 | uint64(t.timerGen)<<16)
			if t.timer.fn != nil {
				h.value(t.timer.fn)
			}
			if t.timer.ch != nil {
				h.value(t.timer.ch)
			}
		}
		return
	}
	if w := t.pendW; w != nil {
		var f uint64
		if w.done {
			f |= 1
		}
		if w.ok {
			f |= 2
		}
		h.w(0x52 | f<<8)
		if w.done {
			h.value(w.val)
		}
	}
	if sh := t.pendSel; sh != nil {
		var f uint64
		if sh.done {
			f |= 1
		}
		if sh.ok {
			f |= 2
		}
		h.w(0x53 | f<<8 | uint64(uint32(sh.caseIdx))<<16)
		if sh.done {
			h.value(sh.val)
		}
	}
	if t.waitCond != nil {
		h.w(0x54)
	}
	h.frames(t)
}

// liveAt: no liveness analysis yet (all registers are hashed); a hook for later.
func (eng *Engine) liveAt(fr *frame) []bool { return nil }

var visitedMu sync.Mutex

type visitedSet struct {
	mu sync.Mutex
	m  map[hash128]int
}

// stateKey computes the canonical hash of the global state.
func (st *State) stateKey() hash128 {
	// phase 1: per-thread local hashes to order the threads canonically
	type th struct {
		t *Thread
		k hash128
	}
	var ths []th
	for _, t := range st.threads {
		if t.done && t.exited {
			continue
		}
		if t.done {
			continue
		}
		lh := &hasher{st: st, cells: map[*Value]int{}, objs: map[interface{}]int{}}
		lh.thread(t)
		ths = append(ths, th{t, lh.h})
	}
	sort.SliceStable(ths, func(i, j int) bool {
		if ths[i].k.a != ths[j].k.a {
			return ths[i].k.a < ths[j].k.a
		}
		return ths[i].k.b < ths[j].k.b
	})
	h := &hasher{st: st, cells: map[*Value]int{}, objs: map[interface{}]int{}}
	for _, x := range ths {
		if x.t == st.cur {
			h.w(0x60)
		} else {
			h.w(0x61)
		}
		h.thread(x.t)
	}
	// globals of the packages under test (library globals are immutable after init)
	for _, g := range st.hashGlobals {
		if p := st.globals[g]; p != nil {
			h.w(0x70)
			h.cell(p)
		}
	}
	// path condition as a multiset
	var pcs []uint64
	for _, c := range st.pc {
		pcs = append(pcs, termHash(c, 12))
	}
	sort.Slice(pcs, func(i, j int) bool { return pcs[i] < pcs[j] })
	for _, x := range pcs {
		h.w(x)
	}
	h.w(uint64(len(st.violations)))
	h.w(uint64(st.now))
	return h.h
}

// seenState reports whether the current state was already reached with at
// least as much preemption budget; otherwise records it.
func (st *State) seenState() bool {
	vs := st.eng.visited
	if vs == nil {
		return false
	}
	k := st.stateKey()
	remaining := st.eng.cfg.Preemptions - st.preemptions
	vs.mu.Lock()
	defer vs.mu.Unlock()
	if best, ok := vs.m[k]; ok && best >= remaining {
		return true
	}
	vs.m[k] = remaining
	return false
}

var _ = types.Typ
