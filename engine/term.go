package main

// Terms: the scalar layer of the symbolic interpreter. Every Go bool / integer /
// float is a *Term. Constructors fold constants, so concrete code runs
// concretely and never reaches the solver.

import (
	"fmt"
	"math"
	"math/big"
	"strings"
	"sync/atomic"
)

type SortKind uint8

const (
	SBool SortKind = iota
	SBV
	SFP
)

type Sort struct {
	K SortKind
	W int // BV width, FP: 32 or 64
}

var BoolSort = Sort{SBool, 0}

func BV(w int) Sort { return Sort{SBV, w} }
func FP(w int) Sort { return Sort{SFP, w} }

func (s Sort) String() string {
	switch s.K {
	case SBool:
		return "Bool"
	case SBV:
		return fmt.Sprintf("(_ BitVec %d)", s.W)
	default:
		if s.W == 32 {
			return "(_ FloatingPoint 8 24)"
		}
		return "(_ FloatingPoint 11 53)"
	}
}

type Op uint8

const (
	OConst Op = iota
	OVar
	ONot
	OAnd
	OOr
	OEq
	OIte
	OBvAdd
	OBvSub
	OBvMul
	OBvUDiv
	OBvURem
	OBvSDiv
	OBvSRem
	OBvAnd
	OBvOr
	OBvXor
	OBvNot
	OBvNeg
	OBvShl
	OBvLshr
	OBvAshr
	OBvUlt
	OBvUle
	OBvSlt
	OBvSle
	OExtract // a = hi, b = lo
	OZext    // a = extra bits
	OSext
	// floating point
	OFpAdd
	OFpSub
	OFpMul
	OFpDiv
	OFpNeg
	OFpLt
	OFpLe
	OFpEq  // IEEE ==
	OFpNaN // isNaN
	OSToFp // signed bv -> fp
	OUToFp // unsigned bv -> fp
	OFpToS // fp -> signed bv (RTZ), a = width
	OFpToU
	OFpToFp   // fp -> fp other width
	OFpBits   // opaque: only for constants
	OBitsToFp // bv -> fp reinterpret
)

var opNames = map[Op]string{
	ONot: "not", OAnd: "and", OOr: "or", OEq: "=", OIte: "ite",
	OBvAdd: "bvadd", OBvSub: "bvsub", OBvMul: "bvmul", OBvUDiv: "bvudiv", OBvURem: "bvurem",
	OBvSDiv: "bvsdiv", OBvSRem: "bvsrem", OBvAnd: "bvand", OBvOr: "bvor", OBvXor: "bvxor",
	OBvNot: "bvnot", OBvNeg: "bvneg", OBvShl: "bvshl", OBvLshr: "bvlshr", OBvAshr: "bvashr",
	OBvUlt: "bvult", OBvUle: "bvule", OBvSlt: "bvslt", OBvSle: "bvsle",
	OFpAdd: "fp.add RNE", OFpSub: "fp.sub RNE", OFpMul: "fp.mul RNE", OFpDiv: "fp.div RNE", OFpNeg: "fp.neg",
	OFpLt: "fp.lt", OFpLe: "fp.leq", OFpEq: "fp.eq", OFpNaN: "fp.isNaN",
}

type Term struct {
	Op   Op
	Sort Sort
	Args []*Term
	Val  uint64 // OConst: value (BV masked to width; Bool 0/1; FP: IEEE bits of float64 or float32)
	A, B int    // OExtract hi/lo, OZext/OSext extra, OFpToS width
	Name string // OVar
	ID   int64
	hasFP bool
	hash  uint64
}

var termCounter int64

func newTerm(op Op, s Sort, args ...*Term) *Term {
	t := &Term{Op: op, Sort: s, Args: args, ID: atomic.AddInt64(&termCounter, 1)}
	if s.K == SFP {
		t.hasFP = true
	}
	for _, a := range args {
		if a.hasFP {
			t.hasFP = true
		}
	}
	return t
}

func mask(w int) uint64 {
	if w >= 64 {
		return ^uint64(0)
	}
	return (uint64(1) << uint(w)) - 1
}

var (
	TrueT  = &Term{Op: OConst, Sort: BoolSort, Val: 1, ID: -1}
	FalseT = &Term{Op: OConst, Sort: BoolSort, Val: 0, ID: -2}
)

func BoolC(b bool) *Term {
	if b {
		return TrueT
	}
	return FalseT
}

var bvSmall [4][258]*Term

func init() {
	for i, w := range []int{8, 16, 32, 64} {
		for v := 0; v < 257; v++ {
			bvSmall[i][v] = &Term{Op: OConst, Sort: BV(w), Val: uint64(v) & mask(w)}
		}
		bvSmall[i][257] = &Term{Op: OConst, Sort: BV(w), Val: mask(w)}
	}
}

func BVC(w int, v uint64) *Term {
	v &= mask(w)
	var i int
	switch w {
	case 8:
		i = 0
	case 16:
		i = 1
	case 32:
		i = 2
	case 64:
		i = 3
	default:
		return &Term{Op: OConst, Sort: BV(w), Val: v}
	}
	if v < 257 {
		return bvSmall[i][v]
	}
	if v == mask(w) {
		return bvSmall[i][257]
	}
	return &Term{Op: OConst, Sort: BV(w), Val: v}
}

func FPC64(f float64) *Term {
	return &Term{Op: OConst, Sort: FP(64), Val: math.Float64bits(f), ID: 0, hasFP: true}
}
func FPC32(f float32) *Term {
	return &Term{Op: OConst, Sort: FP(32), Val: uint64(math.Float32bits(f)), ID: 0, hasFP: true}
}

func NewVar(name string, s Sort) *Term {
	t := newTerm(OVar, s)
	t.Name = name
	return t
}

func (t *Term) IsConst() bool { return t.Op == OConst }
func (t *Term) IsTrue() bool  { return t.Op == OConst && t.Sort.K == SBool && t.Val == 1 }
func (t *Term) IsFalse() bool { return t.Op == OConst && t.Sort.K == SBool && t.Val == 0 }

// signed value of a constant BV
func (t *Term) SVal() int64 {
	w := t.Sort.W
	v := t.Val
	if w < 64 && v&(1<<uint(w-1)) != 0 {
		v |= ^mask(w)
	}
	return int64(v)
}

func (t *Term) FVal() float64 {
	if t.Sort.W == 32 {
		return float64(math.Float32frombits(uint32(t.Val)))
	}
	return math.Float64frombits(t.Val)
}

func fpc(w int, f float64) *Term {
	if w == 32 {
		return FPC32(float32(f))
	}
	return FPC64(f)
}

// ---------- boolean constructors

func Not(a *Term) *Term {
	if a.IsConst() {
		return BoolC(a.Val == 0)
	}
	if a.Op == ONot {
		return a.Args[0]
	}
	return newTerm(ONot, BoolSort, a)
}

func And(a, b *Term) *Term {
	if a.IsConst() {
		if a.Val == 0 {
			return FalseT
		}
		return b
	}
	if b.IsConst() {
		if b.Val == 0 {
			return FalseT
		}
		return a
	}
	if a == b {
		return a
	}
	return newTerm(OAnd, BoolSort, a, b)
}

func Or(a, b *Term) *Term {
	if a.IsConst() {
		if a.Val == 1 {
			return TrueT
		}
		return b
	}
	if b.IsConst() {
		if b.Val == 1 {
			return TrueT
		}
		return a
	}
	if a == b {
		return a
	}
	return newTerm(OOr, BoolSort, a, b)
}

func Implies(a, b *Term) *Term { return Or(Not(a), b) }

func Eq(a, b *Term) *Term {
	if a.Sort != b.Sort {
		panic(fmt.Sprintf("Eq sort mismatch %v %v", a.Sort, b.Sort))
	}
	if a.Sort.K != SFP && (a == b || sameTerm(a, b, 12)) {
		return TrueT
	}
	if a.IsConst() && b.IsConst() {
		if a.Sort.K == SFP {
			// structural (bit) equality; use FpEq for IEEE
			return BoolC(a.Val == b.Val)
		}
		return BoolC(a.Val == b.Val)
	}
	if r := remZeroRewrite(a, b); r != nil {
		return r
	}
	if a.Sort.K == SBool {
		if a.IsConst() {
			if a.Val == 1 {
				return b
			}
			return Not(b)
		}
		if b.IsConst() {
			if b.Val == 1 {
				return a
			}
			return Not(a)
		}
	}
	return newTerm(OEq, BoolSort, a, b)
}

// remZeroRewrite: (c rem x) == 0 with a small constant dividend c is a
// disjunction over the divisors of c; this avoids bit-blasting a 64-bit divider.
// SMT-LIB semantics for x == 0 (result = dividend) are preserved: for c != 0 the
// result is non-zero, matching "no divisor equals 0".
func remZeroRewrite(a, b *Term) *Term {
	var rem, z *Term
	if a.IsConst() {
		z, rem = a, b
	} else if b.IsConst() {
		z, rem = b, a
	} else {
		return nil
	}
	if z.Val != 0 || (rem.Op != OBvSRem && rem.Op != OBvURem) || !rem.Args[0].IsConst() {
		return nil
	}
	w := rem.Sort.W
	x := rem.Args[1]
	var c int64
	if rem.Op == OBvSRem {
		c = rem.Args[0].SVal()
	} else {
		if rem.Args[0].Val > 4096 {
			return nil
		}
		c = int64(rem.Args[0].Val)
	}
	if c == 0 {
		return TrueT
	}
	if c < 0 {
		c = -c
	}
	if c > 4096 || c < 0 {
		return nil
	}
	res := FalseT
	for d := int64(1); d <= c; d++ {
		if c%d != 0 {
			continue
		}
		res = Or(res, Eq(x, BVC(w, uint64(d))))
		if rem.Op == OBvSRem {
			res = Or(res, Eq(x, BVC(w, uint64(-d))))
		}
	}
	return res
}

// sameTerm: structural identity (bounded depth); sound as a sufficient test for
// semantic equality of non-FP terms.
func sameTerm(a, b *Term, depth int) bool {
	if a == b {
		return true
	}
	if depth == 0 || a.Op != b.Op || a.Sort != b.Sort || len(a.Args) != len(b.Args) || a.A != b.A || a.B != b.B {
		return false
	}
	switch a.Op {
	case OConst:
		return a.Val == b.Val
	case OVar:
		return a.Name == b.Name
	}
	for i := range a.Args {
		if !sameTerm(a.Args[i], b.Args[i], depth-1) {
			return false
		}
	}
	return true
}

func Ite(c, a, b *Term) *Term {
	if c.IsConst() {
		if c.Val == 1 {
			return a
		}
		return b
	}
	if a == b {
		return a
	}
	if a.Sort.K == SBool {
		if a.IsConst() && b.IsConst() {
			if a.Val == 1 && b.Val == 0 {
				return c
			}
			if a.Val == 0 && b.Val == 1 {
				return Not(c)
			}
		}
	}
	if a.IsConst() && b.IsConst() && a.Val == b.Val {
		return a
	}
	return newTerm(OIte, a.Sort, c, a, b)
}

// ---------- bit-vector constructors

func sx(v uint64, w int) int64 {
	if w < 64 && v&(1<<uint(w-1)) != 0 {
		v |= ^mask(w)
	}
	return int64(v)
}

func BvBin(op Op, a, b *Term) *Term {
	if a.Sort != b.Sort || a.Sort.K != SBV {
		panic(fmt.Sprintf("BvBin %v sort mismatch %v %v", opNames[op], a.Sort, b.Sort))
	}
	w := a.Sort.W
	if a.IsConst() && b.IsConst() {
		x, y := a.Val, b.Val
		var r uint64
		switch op {
		case OBvAdd:
			r = x + y
		case OBvSub:
			r = x - y
		case OBvMul:
			r = x * y
		case OBvUDiv:
			if y == 0 {
				r = mask(w)
			} else {
				r = x / y
			}
		case OBvURem:
			if y == 0 {
				r = x
			} else {
				r = x % y
			}
		case OBvSDiv:
			sxv, syv := sx(x, w), sx(y, w)
			if syv == 0 {
				if sxv < 0 {
					r = 1
				} else {
					r = mask(w)
				}
			} else if syv == -1 {
				r = uint64(-sxv)
			} else {
				r = uint64(sxv / syv)
			}
		case OBvSRem:
			sxv, syv := sx(x, w), sx(y, w)
			if syv == 0 {
				r = x
			} else if syv == -1 {
				r = 0
			} else {
				r = uint64(sxv % syv)
			}
		case OBvAnd:
			r = x & y
		case OBvOr:
			r = x | y
		case OBvXor:
			r = x ^ y
		case OBvShl:
			if y >= uint64(w) {
				r = 0
			} else {
				r = x << y
			}
		case OBvLshr:
			if y >= uint64(w) {
				r = 0
			} else {
				r = x >> y
			}
		case OBvAshr:
			s := sx(x, w)
			if y >= uint64(w) {
				if s < 0 {
					r = mask(w)
				} else {
					r = 0
				}
			} else {
				r = uint64(s >> y)
			}
		default:
			panic("BvBin op")
		}
		return BVC(w, r)
	}
	// light identities
	switch op {
	case OBvAdd, OBvOr, OBvXor:
		if a.IsConst() && a.Val == 0 {
			return b
		}
		if b.IsConst() && b.Val == 0 {
			return a
		}
	case OBvSub, OBvShl, OBvLshr, OBvAshr:
		if b.IsConst() && b.Val == 0 {
			return a
		}
	case OBvMul:
		if a.IsConst() && a.Val == 1 {
			return b
		}
		if b.IsConst() && b.Val == 1 {
			return a
		}
		if (a.IsConst() && a.Val == 0) || (b.IsConst() && b.Val == 0) {
			return BVC(w, 0)
		}
	case OBvAnd:
		if (a.IsConst() && a.Val == 0) || (b.IsConst() && b.Val == 0) {
			return BVC(w, 0)
		}
		if a.IsConst() && a.Val == mask(w) {
			return b
		}
		if b.IsConst() && b.Val == mask(w) {
			return a
		}
	case OBvUDiv, OBvSDiv:
		if b.IsConst() && b.Val == 1 {
			return a
		}
	}
	return newTerm(op, a.Sort, a, b)
}

func BvCmp(op Op, a, b *Term) *Term {
	if a.Sort != b.Sort || a.Sort.K != SBV {
		panic(fmt.Sprintf("BvCmp sort mismatch %v %v", a.Sort, b.Sort))
	}
	w := a.Sort.W
	if a.IsConst() && b.IsConst() {
		switch op {
		case OBvUlt:
			return BoolC(a.Val < b.Val)
		case OBvUle:
			return BoolC(a.Val <= b.Val)
		case OBvSlt:
			return BoolC(sx(a.Val, w) < sx(b.Val, w))
		case OBvSle:
			return BoolC(sx(a.Val, w) <= sx(b.Val, w))
		}
	}
	if a == b {
		return BoolC(op == OBvUle || op == OBvSle)
	}
	return newTerm(op, BoolSort, a, b)
}

func BvNot(a *Term) *Term {
	if a.IsConst() {
		return BVC(a.Sort.W, ^a.Val)
	}
	return newTerm(OBvNot, a.Sort, a)
}

func BvNeg(a *Term) *Term {
	if a.IsConst() {
		return BVC(a.Sort.W, -a.Val)
	}
	return newTerm(OBvNeg, a.Sort, a)
}

func Extract(a *Term, hi, lo int) *Term {
	if lo == 0 && hi == a.Sort.W-1 {
		return a
	}
	if a.IsConst() {
		return BVC(hi-lo+1, a.Val>>uint(lo))
	}
	t := newTerm(OExtract, BV(hi-lo+1), a)
	t.A, t.B = hi, lo
	return t
}

func Zext(a *Term, to int) *Term {
	if to == a.Sort.W {
		return a
	}
	if a.IsConst() {
		return BVC(to, a.Val)
	}
	t := newTerm(OZext, BV(to), a)
	t.A = to - a.Sort.W
	return t
}

func Sext(a *Term, to int) *Term {
	if to == a.Sort.W {
		return a
	}
	if a.IsConst() {
		return BVC(to, uint64(sx(a.Val, a.Sort.W)))
	}
	t := newTerm(OSext, BV(to), a)
	t.A = to - a.Sort.W
	return t
}

// Resize converts a BV to width w, sign- or zero-extending according to the
// signedness of the *source*.
func Resize(a *Term, w int, srcSigned bool) *Term {
	if w == a.Sort.W {
		return a
	}
	if w < a.Sort.W {
		return Extract(a, w-1, 0)
	}
	if srcSigned {
		return Sext(a, w)
	}
	return Zext(a, w)
}

// ---------- floating point

func FpBin(op Op, a, b *Term) *Term {
	if a.IsConst() && b.IsConst() {
		x, y := a.FVal(), b.FVal()
		var r float64
		w := a.Sort.W
		if w == 32 {
			x32, y32 := float32(x), float32(y)
			var r32 float32
			switch op {
			case OFpAdd:
				r32 = x32 + y32
			case OFpSub:
				r32 = x32 - y32
			case OFpMul:
				r32 = x32 * y32
			case OFpDiv:
				r32 = x32 / y32
			}
			return FPC32(r32)
		}
		switch op {
		case OFpAdd:
			r = x + y
		case OFpSub:
			r = x - y
		case OFpMul:
			r = x * y
		case OFpDiv:
			r = x / y
		}
		return FPC64(r)
	}
	return newTerm(op, a.Sort, a, b)
}

func FpCmp(op Op, a, b *Term) *Term {
	if a.IsConst() && b.IsConst() {
		x, y := a.FVal(), b.FVal()
		switch op {
		case OFpLt:
			return BoolC(x < y)
		case OFpLe:
			return BoolC(x <= y)
		case OFpEq:
			return BoolC(x == y)
		}
	}
	return newTerm(op, BoolSort, a, b)
}

func FpNeg(a *Term) *Term {
	if a.IsConst() {
		return fpc(a.Sort.W, -a.FVal())
	}
	return newTerm(OFpNeg, a.Sort, a)
}

func FpIsNaN(a *Term) *Term {
	if a.IsConst() {
		return BoolC(math.IsNaN(a.FVal()))
	}
	return newTerm(OFpNaN, BoolSort, a)
}

func IntToFp(a *Term, signed bool, fw int) *Term {
	if a.IsConst() {
		if signed {
			return fpc(fw, float64(a.SVal()))
		}
		return fpc(fw, float64(a.Val))
	}
	op := OUToFp
	if signed {
		op = OSToFp
	}
	return newTerm(op, FP(fw), a)
}

// FpToInt: float -> integer conversion with Go's behaviour on amd64, which is
// what the native replay runs: in-range values truncate toward zero; NaN and
// out-of-range values give the "integer indefinite" value of the conversion
// instruction the compiler uses (CVTTSD2SL for int8/16/32 and uint8/16,
// CVTTSD2SQ for int/int64/uint32, a 2^63 split for uint/uint64), then truncate.
func FpToInt(a *Term, signed bool, w int) *Term {
	via := 64
	if w <= 16 || (signed && w == 32) {
		via = 32
	}
	if a.IsConst() {
		f := a.FVal()
		if !signed && w == 64 {
			if f >= 9223372036854775808.0 {
				return BVC(64, uint64(int64(f-9223372036854775808.0))^(1<<63))
			}
		}
		var r uint64
		if via == 32 {
			if f != f || f >= 2147483648.0 || f <= -2147483649.0 {
				r = 0x80000000
			} else {
				r = uint64(uint32(int32(f)))
			}
		} else {
			if f != f || f >= 9223372036854775808.0 || f < -9223372036854775808.0 {
				r = 1 << 63
			} else {
				r = uint64(int64(f))
			}
		}
		return BVC(w, r)
	}
	fw := a.Sort.W
	k := func(x float64) *Term { return fpc(fw, x) }
	var inRange *Term
	if via == 32 {
		inRange = And(FpCmp(OFpLt, a, k(2147483648.0)), FpCmp(OFpLt, k(-2147483649.0), a))
	} else {
		inRange = And(FpCmp(OFpLt, a, k(9223372036854775808.0)), FpCmp(OFpLe, k(-9223372036854775808.0), a))
	}
	conv := newTerm(OFpToS, BV(via), a)
	conv.A = via
	var indefinite *Term
	if via == 32 {
		indefinite = BVC(32, 0x80000000)
	} else {
		indefinite = BVC(64, 1<<63)
	}
	res := Ite(inRange, conv, indefinite)
	if !signed && w == 64 {
		big := FpCmp(OFpLe, k(9223372036854775808.0), a)
		shifted := newTerm(OFpToS, BV(64), FpBin(OFpSub, a, k(9223372036854775808.0)))
		shifted.A = 64
		res = Ite(big, BvBin(OBvXor, shifted, BVC(64, 1<<63)), res)
	}
	if w < via {
		return Extract(res, w-1, 0)
	}
	return res
}

func FpToFp(a *Term, fw int) *Term {
	if a.Sort.W == fw {
		return a
	}
	if a.IsConst() {
		return fpc(fw, a.FVal())
	}
	return newTerm(OFpToFp, FP(fw), a)
}

// ---------- printing

func bvLit(w int, v uint64) string {
	if w%4 == 0 {
		return fmt.Sprintf("#x%0*x", w/4, v&mask(w))
	}
	return fmt.Sprintf("#b%0*b", w, v&mask(w))
}

func fpLit(w int, bits uint64) string {
	if w == 32 {
		return fmt.Sprintf("((_ to_fp 8 24) %s)", bvLit(32, bits))
	}
	return fmt.Sprintf("((_ to_fp 11 53) %s)", bvLit(64, bits))
}

func (t *Term) ref() string {
	switch t.Op {
	case OConst:
		switch t.Sort.K {
		case SBool:
			if t.Val == 1 {
				return "true"
			}
			return "false"
		case SBV:
			return bvLit(t.Sort.W, t.Val)
		default:
			return fpLit(t.Sort.W, t.Val)
		}
	case OVar:
		return "|" + t.Name + "|"
	}
	return fmt.Sprintf("t%d", t.ID)
}

// body prints the defining expression of a non-leaf term using refs of args.
func (t *Term) body() string {
	var sb strings.Builder
	switch t.Op {
	case OExtract:
		fmt.Fprintf(&sb, "((_ extract %d %d) %s)", t.A, t.B, t.Args[0].ref())
	case OZext:
		fmt.Fprintf(&sb, "((_ zero_extend %d) %s)", t.A, t.Args[0].ref())
	case OSext:
		fmt.Fprintf(&sb, "((_ sign_extend %d) %s)", t.A, t.Args[0].ref())
	case OSToFp:
		fmt.Fprintf(&sb, "((_ to_fp %s) RNE %s)", fpDims(t.Sort.W), t.Args[0].ref())
	case OUToFp:
		fmt.Fprintf(&sb, "((_ to_fp_unsigned %s) RNE %s)", fpDims(t.Sort.W), t.Args[0].ref())
	case OFpToS:
		fmt.Fprintf(&sb, "((_ fp.to_sbv %d) RTZ %s)", t.A, t.Args[0].ref())
	case OFpToU:
		fmt.Fprintf(&sb, "((_ fp.to_ubv %d) RTZ %s)", t.A, t.Args[0].ref())
	case OFpToFp:
		fmt.Fprintf(&sb, "((_ to_fp %s) RNE %s)", fpDims(t.Sort.W), t.Args[0].ref())
	default:
		sb.WriteString("(")
		sb.WriteString(opNames[t.Op])
		for _, a := range t.Args {
			sb.WriteString(" ")
			sb.WriteString(a.ref())
		}
		sb.WriteString(")")
	}
	return sb.String()
}

func fpDims(w int) string {
	if w == 32 {
		return "8 24"
	}
	return "11 53"
}

// String renders a term as a tree (debug / evidence samples only).
func (t *Term) String() string {
	return t.str(0)
}

func (t *Term) str(depth int) string {
	if t.Op == OConst || t.Op == OVar {
		if t.Op == OConst && t.Sort.K == SBV {
			return fmt.Sprintf("%d", t.SVal())
		}
		return t.ref()
	}
	if depth > 6 {
		return "…"
	}
	var parts []string
	for _, a := range t.Args {
		parts = append(parts, a.str(depth+1))
	}
	name := opNames[t.Op]
	if name == "" {
		name = fmt.Sprintf("op%d", t.Op)
	}
	return "(" + name + " " + strings.Join(parts, " ") + ")"
}

// ---------- evaluation under a model (used for model caching and concrete checks)

type Model map[string]uint64 // var name -> value (bits)

// Eval evaluates t under m; variables missing from the model evaluate to 0.
func (t *Term) Eval(m Model, memo map[*Term]uint64) uint64 {
	if t.Op == OConst {
		return t.Val
	}
	if v, ok := memo[t]; ok {
		return v
	}
	var r uint64
	a := func(i int) uint64 { return t.Args[i].Eval(m, memo) }
	switch t.Op {
	case OVar:
		r = m[t.Name] & sortMask(t.Sort)
	case ONot:
		r = a(0) ^ 1
	case OAnd:
		r = a(0) & a(1)
	case OOr:
		r = a(0) | a(1)
	case OEq:
		if a(0) == a(1) {
			r = 1
		}
	case OIte:
		if a(0) == 1 {
			r = a(1)
		} else {
			r = a(2)
		}
	case OBvAdd, OBvSub, OBvMul, OBvUDiv, OBvURem, OBvSDiv, OBvSRem, OBvAnd, OBvOr, OBvXor, OBvShl, OBvLshr, OBvAshr:
		r = BvBin(t.Op, BVC(t.Sort.W, a(0)), BVC(t.Sort.W, a(1))).Val
	case OBvUlt, OBvUle, OBvSlt, OBvSle:
		w := t.Args[0].Sort.W
		r = BvCmp(t.Op, BVC(w, a(0)), BVC(w, a(1))).Val
	case OBvNot:
		r = ^a(0) & mask(t.Sort.W)
	case OBvNeg:
		r = (-a(0)) & mask(t.Sort.W)
	case OExtract:
		r = (a(0) >> uint(t.B)) & mask(t.A-t.B+1)
	case OZext:
		r = a(0)
	case OSext:
		r = uint64(sx(a(0), t.Args[0].Sort.W)) & mask(t.Sort.W)
	default:
		// FP ops: evaluate through constant folding of constructors
		args := make([]*Term, len(t.Args))
		for i, x := range t.Args {
			args[i] = &Term{Op: OConst, Sort: x.Sort, Val: a(i), hasFP: x.Sort.K == SFP}
		}
		var c *Term
		switch t.Op {
		case OFpAdd, OFpSub, OFpMul, OFpDiv:
			c = FpBin(t.Op, args[0], args[1])
		case OFpLt, OFpLe, OFpEq:
			c = FpCmp(t.Op, args[0], args[1])
		case OFpNeg:
			c = FpNeg(args[0])
		case OFpNaN:
			c = FpIsNaN(args[0])
		case OSToFp:
			c = IntToFp(args[0], true, t.Sort.W)
		case OUToFp:
			c = IntToFp(args[0], false, t.Sort.W)
		case OFpToS:
			c = FpToInt(args[0], true, t.Sort.W)
		case OFpToU:
			c = FpToInt(args[0], false, t.Sort.W)
		case OFpToFp:
			c = FpToFp(args[0], t.Sort.W)
		default:
			panic("Eval: op")
		}
		r = c.Val
	}
	memo[t] = r
	return r
}

func sortMask(s Sort) uint64 {
	switch s.K {
	case SBool:
		return 1
	case SBV:
		return mask(s.W)
	}
	if s.W == 32 {
		return mask(32)
	}
	return ^uint64(0)
}

// vars collects the free variables of t.
func (t *Term) vars(seen map[*Term]bool, out map[string]*Term) {
	if seen[t] {
		return
	}
	seen[t] = true
	if t.Op == OVar {
		out[t.Name] = t
		return
	}
	for _, a := range t.Args {
		a.vars(seen, out)
	}
}

func bigFromSigned(v uint64, w int) *big.Int {
	return big.NewInt(sx(v, w))
}
