package main

// Value layer: Go values of the interpreted program. Shapes are concrete on a
// path, scalars are *Term.

import (
	"fmt"
	"go/types"
	"sort"
	"strings"
	"sync"

	"golang.org/x/tools/go/ssa"
	"golang.org/x/tools/go/types/typeutil"
)

type Value interface{}

// SymStr is a finite-domain symbolic string: Tab[ID].
type SymStr struct {
	Tab  []string
	ID   *Term // BV(8)
	Name string
}

type Struct []Value
type Array []Value
type Tuple []Value

type Slice struct {
	A   []Value // backing window; len(A) = length, cap(A) = capacity
	Nil bool
}

type Iface struct {
	T types.Type // nil => nil interface
	V Value
}

type Closure struct {
	Fn  *ssa.Function
	Env []Value
}

// NativeFn is a function value implemented by the engine (used by intrinsics
// that must hand a func value to interpreted code, e.g. context cancel funcs).
type NativeFn struct {
	Name string
	F    func(st *State, args []Value) Value
}

type mapEntry struct {
	K, V    Value
	Deleted bool
}

type Map struct {
	entries []*mapEntry
	idx     map[interface{}]int // canonical concrete key -> entry index
	sym     int                 // number of live entries with non-canonical (symbolic) key
	n       int
	T       *types.Map
}

// Poison marks a value produced by an unsupported function during package
// initialisation; using it aborts the path.
type Poison struct{ Why string }

// ---------- type helpers

var (
	typeIDMu  sync.Mutex
	typeIDMap typeutil.Map
	typeIDn   int
)

func typeID(t types.Type) int {
	typeIDMu.Lock()
	defer typeIDMu.Unlock()
	if v := typeIDMap.At(t); v != nil {
		return v.(int)
	}
	typeIDn++
	typeIDMap.Set(t, typeIDn)
	return typeIDn
}

func isSigned(t types.Type) bool {
	b, ok := t.Underlying().(*types.Basic)
	return ok && b.Info()&types.IsInteger != 0 && b.Info()&types.IsUnsigned == 0
}

func basicWidth(b *types.Basic) int {
	switch b.Kind() {
	case types.Int8, types.Uint8:
		return 8
	case types.Int16, types.Uint16:
		return 16
	case types.Int32, types.Uint32:
		return 32
	case types.Int, types.Uint, types.Int64, types.Uint64, types.Uintptr, types.UntypedInt, types.UntypedRune:
		return 64
	case types.Float32:
		return 32
	case types.Float64, types.UntypedFloat:
		return 64
	}
	return 0
}

func sortOf(t types.Type) (Sort, bool) {
	b, ok := t.Underlying().(*types.Basic)
	if !ok {
		return Sort{}, false
	}
	switch {
	case b.Info()&types.IsBoolean != 0:
		return BoolSort, true
	case b.Info()&types.IsInteger != 0:
		return BV(basicWidth(b)), true
	case b.Info()&types.IsFloat != 0:
		return FP(basicWidth(b)), true
	}
	return Sort{}, false
}

func zeroOfSort(s Sort) *Term {
	switch s.K {
	case SBool:
		return FalseT
	case SBV:
		return BVC(s.W, 0)
	}
	if s.W == 32 {
		return FPC32(0)
	}
	return FPC64(0)
}

var reflectValueType types.Type // set by loader if reflect is loaded

func zero(t types.Type) Value {
	if reflectValueType != nil {
		if n, ok := t.(*types.Named); ok && n.Obj().Pkg() != nil && n.Obj().Pkg().Path() == "reflect" && n.Obj().Name() == "Value" {
			return RValue{}
		}
	}
	switch u := t.Underlying().(type) {
	case *types.Basic:
		if u.Kind() == types.UntypedNil {
			return nil
		}
		if u.Info()&types.IsString != 0 {
			return ""
		}
		if u.Kind() == types.UnsafePointer {
			return (*Value)(nil)
		}
		if s, ok := sortOf(u); ok {
			return zeroOfSort(s)
		}
		panic(unsupported("zero of basic type " + u.String()))
	case *types.Pointer:
		return (*Value)(nil)
	case *types.Struct:
		s := make(Struct, u.NumFields())
		for i := range s {
			s[i] = zero(u.Field(i).Type())
		}
		return s
	case *types.Array:
		a := make(Array, u.Len())
		for i := range a {
			a[i] = zero(u.Elem())
		}
		return a
	case *types.Slice:
		return Slice{Nil: true}
	case *types.Map:
		return (*Map)(nil)
	case *types.Chan:
		return (*Chan)(nil)
	case *types.Signature:
		return (*ssa.Function)(nil)
	case *types.Interface:
		return Iface{}
	case *types.Tuple:
		if u.Len() == 1 {
			return zero(u.At(0).Type())
		}
		tt := make(Tuple, u.Len())
		for i := range tt {
			tt[i] = zero(u.At(i).Type())
		}
		return tt
	}
	panic(unsupported(fmt.Sprintf("zero of %T %v", t, t)))
}

// copyVal implements value semantics for aggregates.
func copyVal(v Value) Value {
	switch v := v.(type) {
	case Struct:
		c := make(Struct, len(v))
		for i, x := range v {
			c[i] = copyVal(x)
		}
		return c
	case Array:
		c := make(Array, len(v))
		for i, x := range v {
			c[i] = copyVal(x)
		}
		return c
	case Tuple:
		c := make(Tuple, len(v))
		for i, x := range v {
			c[i] = copyVal(x)
		}
		return c
	}
	return v
}

func isNilFunc(v Value) bool {
	switch f := v.(type) {
	case *ssa.Function:
		return f == nil
	case *Closure:
		return f == nil
	case *NativeFn:
		return f == nil
	case *ssa.Builtin:
		return f == nil
	case nil:
		return true
	}
	return false
}

// ---------- strings

func concreteStr(v Value) (string, bool) {
	s, ok := v.(string)
	return s, ok
}

// strRel builds the Bool term for a relation between two string values, at
// least one of which is symbolic.
func strRel(a, b Value, rel func(x, y string) bool) *Term {
	ta, ia := strTab(a)
	tb, ib := strTab(b)
	res := FalseT
	for i, x := range ta {
		for j, y := range tb {
			if rel(x, y) {
				c := TrueT
				if ia != nil {
					c = And(c, Eq(ia, BVC(8, uint64(i))))
				}
				if ib != nil {
					c = And(c, Eq(ib, BVC(8, uint64(j))))
				}
				res = Or(res, c)
			}
		}
	}
	return res
}

func strTab(v Value) ([]string, *Term) {
	switch s := v.(type) {
	case string:
		return []string{s}, nil
	case *SymStr:
		return s.Tab, s.ID
	}
	panic(fmt.Sprintf("strTab: %T", v))
}

// ---------- equality (Go ==), returns a Bool term

type goPanic struct {
	v Value // an interpreted value (usually Iface wrapping error/string)
}

func eqValues(t types.Type, a, b Value) *Term {
	switch x := a.(type) {
	case *Term:
		y := b.(*Term)
		if x.Sort.K == SFP {
			return FpCmp(OFpEq, x, y)
		}
		return Eq(x, y)
	case string:
		if y, ok := b.(string); ok {
			return BoolC(x == y)
		}
		return strRel(a, b, func(p, q string) bool { return p == q })
	case *SymStr:
		if y, ok := b.(*SymStr); ok && y == x {
			return TrueT
		}
		return strRel(a, b, func(p, q string) bool { return p == q })
	case *Value:
		return BoolC(x == b.(*Value))
	case *Map:
		return BoolC(x == b.(*Map))
	case *Chan:
		return BoolC(x == b.(*Chan))
	case Struct:
		y := b.(Struct)
		st, _ := t.Underlying().(*types.Struct)
		res := TrueT
		for i := range x {
			var ft types.Type
			if st != nil {
				if st.Field(i).Name() == "_" {
					continue
				}
				ft = st.Field(i).Type()
			}
			res = And(res, eqValues(ft, x[i], y[i]))
		}
		return res
	case Array:
		y := b.(Array)
		var et types.Type
		if at, ok := t.Underlying().(*types.Array); ok {
			et = at.Elem()
		}
		res := TrueT
		for i := range x {
			res = And(res, eqValues(et, x[i], y[i]))
		}
		return res
	case Iface:
		y := b.(Iface)
		if x.T == nil || y.T == nil {
			return BoolC(x.T == nil && y.T == nil)
		}
		if !types.Identical(x.T, y.T) {
			return FalseT
		}
		if !types.Comparable(x.T) {
			panic(goPanic{mkRuntimeError("comparing uncomparable type " + x.T.String())})
		}
		return eqValues(x.T, x.V, y.V)
	case *RType:
		y, ok := b.(*RType)
		return BoolC(ok && x == y)
	case Slice:
		// only slice == nil is legal
		y := b.(Slice)
		if y.Nil && len(y.A) == 0 && cap(y.A) == 0 {
			return BoolC(x.Nil)
		}
		return BoolC(y.Nil == x.Nil)
	case nil:
		return BoolC(isNilFunc(b))
	case *ssa.Function, *Closure, *NativeFn, *ssa.Builtin:
		// func == nil
		return BoolC(isNilFunc(a) && isNilFunc(b))
	case RValue:
		y, ok := b.(RValue)
		if !ok {
			return FalseT
		}
		if !x.OK || !y.OK {
			return BoolC(!x.OK && !y.OK)
		}
		if !types.Identical(x.T, y.T) {
			return FalseT
		}
		if x.Addr != nil || y.Addr != nil {
			return BoolC(x.Addr == y.Addr)
		}
		// reflect.Value == compares representation: same pointer word for
		// pointer-shaped values, undefined otherwise; only nil-ness is relied on
		if px, ok := x.V.(*Value); ok {
			py, _ := y.V.(*Value)
			return BoolC(px == py)
		}
		return FalseT
	}
	panic(unsupported(fmt.Sprintf("eqValues on %T", a)))
}

// ---------- maps

// canonKey returns a comparable host key for a fully concrete value.
func canonKey(v Value) (interface{}, bool) {
	switch x := v.(type) {
	case *Term:
		if x.IsConst() {
			return [2]uint64{uint64(x.Sort.K)<<8 | uint64(x.Sort.W), x.Val}, true
		}
		return nil, false
	case string:
		return x, true
	case *SymStr:
		return nil, false
	case *Value:
		return x, true
	case *Map:
		return x, true
	case *Chan:
		return x, true
	case *RType:
		return x, true
	case Iface:
		if x.T == nil {
			return "<nil iface>", true
		}
		k, ok := canonKey(x.V)
		if !ok {
			return nil, false
		}
		return [2]interface{}{typeID(x.T), k}, true
	case Struct:
		var sb strings.Builder
		for _, f := range x {
			k, ok := canonKey(f)
			if !ok {
				return nil, false
			}
			fmt.Fprintf(&sb, "%T:%v|", k, k)
		}
		return "S{" + sb.String() + "}", true
	case Array:
		var sb strings.Builder
		for _, f := range x {
			k, ok := canonKey(f)
			if !ok {
				return nil, false
			}
			fmt.Fprintf(&sb, "%T:%v|", k, k)
		}
		return "A{" + sb.String() + "}", true
	}
	return nil, false
}

func newMap(t *types.Map) *Map {
	return &Map{idx: map[interface{}]int{}, T: t}
}

func (m *Map) Len() int {
	if m == nil {
		return 0
	}
	return m.n
}

// find returns the entry for key k, deciding symbolic equalities through st.
func (m *Map) find(st *State, k Value) *mapEntry {
	if m == nil {
		return nil
	}
	if it, ok := k.(Iface); ok && it.T != nil && !types.Comparable(it.T) {
		panic(goPanic{mkRuntimeError("hash of unhashable type " + it.T.String())})
	}
	ck, conc := canonKey(k)
	if conc {
		if i, ok := m.idx[ck]; ok {
			return m.entries[i]
		}
		if m.sym == 0 {
			return nil
		}
	}
	var kt types.Type
	if m.T != nil {
		kt = m.T.Key()
	}
	for _, e := range m.entries {
		if e.Deleted {
			continue
		}
		if conc {
			if _, c2 := canonKey(e.K); c2 {
				continue // concrete keys differ (index miss)
			}
		}
		c := eqValues(kt, e.K, k)
		if st.decide(c) {
			return e
		}
	}
	return nil
}

func (m *Map) get(st *State, k Value) (Value, bool) {
	e := m.find(st, k)
	if e == nil {
		return nil, false
	}
	return e.V, true
}

func (m *Map) set(st *State, k, v Value) {
	if m == nil {
		panic(goPanic{mkRuntimeError("assignment to entry in nil map")})
	}
	if e := m.find(st, k); e != nil {
		e.V = v
		return
	}
	e := &mapEntry{K: k, V: v}
	m.entries = append(m.entries, e)
	if ck, ok := canonKey(k); ok {
		m.idx[ck] = len(m.entries) - 1
	} else {
		m.sym++
	}
	m.n++
}

func (m *Map) del(st *State, k Value) {
	if m == nil {
		return
	}
	e := m.find(st, k)
	if e == nil {
		return
	}
	e.Deleted = true
	if ck, ok := canonKey(e.K); ok {
		delete(m.idx, ck)
	} else {
		m.sym--
	}
	m.n--
}

func (m *Map) clear() {
	if m == nil {
		return
	}
	for _, e := range m.entries {
		e.Deleted = true
	}
	m.entries = nil
	m.idx = map[interface{}]int{}
	m.sym = 0
	m.n = 0
}

// live returns the live entries in insertion order.
func (m *Map) live() []*mapEntry {
	if m == nil {
		return nil
	}
	out := make([]*mapEntry, 0, m.n)
	for _, e := range m.entries {
		if !e.Deleted {
			out = append(out, e)
		}
	}
	return out
}

// ---------- runtime errors as interpreted values

var runtimeErrorType types.Type // a named string type standing for runtime.Error

type RuntimeError struct{ Msg string }

// mkRuntimeError: the value a run-time fault panics with — an error that also
// implements runtime.Error (recover() returns it as a non-nil interface).
func mkRuntimeError(msg string) Value {
	if runtimeErrorType == nil {
		return Iface{T: nil, V: RuntimeError{Msg: "runtime error: " + msg}}
	}
	return Iface{T: runtimeErrorType, V: "runtime error: " + msg}
}

// ---------- debug printing

func showValue(v Value) string {
	return showV(v, 0)
}

func showV(v Value, d int) string {
	if d > 6 {
		return "…"
	}
	switch x := v.(type) {
	case nil:
		return "nil"
	case *Term:
		if x.IsConst() {
			switch x.Sort.K {
			case SBool:
				if x.Val == 1 {
					return "true"
				}
				return "false"
			case SBV:
				return fmt.Sprintf("%d", x.SVal())
			default:
				return fmt.Sprintf("%g", x.FVal())
			}
		}
		return x.String()
	case string:
		return fmt.Sprintf("%q", x)
	case *SymStr:
		return fmt.Sprintf("sym(%s)", x.Name)
	case *Value:
		if x == nil {
			return "nil"
		}
		return "&" + showV(*x, d+1)
	case Struct:
		var p []string
		for _, f := range x {
			p = append(p, showV(f, d+1))
		}
		return "{" + strings.Join(p, ", ") + "}"
	case Array:
		var p []string
		for _, f := range x {
			p = append(p, showV(f, d+1))
		}
		return "[" + strings.Join(p, ", ") + "]"
	case Tuple:
		var p []string
		for _, f := range x {
			p = append(p, showV(f, d+1))
		}
		return "(" + strings.Join(p, ", ") + ")"
	case Slice:
		if x.Nil {
			return "nil"
		}
		var p []string
		for _, f := range x.A {
			p = append(p, showV(f, d+1))
		}
		return "[" + strings.Join(p, ", ") + "]"
	case *Map:
		if x == nil {
			return "nil"
		}
		var p []string
		for _, e := range x.live() {
			p = append(p, showV(e.K, d+1)+":"+showV(e.V, d+1))
		}
		sort.Strings(p)
		return "map[" + strings.Join(p, ", ") + "]"
	case Iface:
		if x.T == nil {
			if re, ok := x.V.(RuntimeError); ok {
				return re.Msg
			}
			return "nil"
		}
		return showV(x.V, d+1)
	case *ssa.Function:
		if x == nil {
			return "nil"
		}
		return x.String()
	case *Closure:
		return x.Fn.String()
	case *RType:
		return "rtype(" + x.T.String() + ")"
	case RuntimeError:
		return x.Msg
	}
	return fmt.Sprintf("%T", v)
}
