//go:build verif
// +build verif

package schemabuilder

import (
	"context"
	"strconv"

	"github.com/samsarahq/thunder/batch"
	"github.com/samsarahq/thunder/graphql"
	"github.com/samsarahq/thunder/internal/zzverif/nondet"
)

type c01bItem struct {
	ID int64 `graphql:",key"`
	V  int64
}

type c01bData struct {
	items   []c01bItem
	ptrs    []*c01bItem
	missing []bool
}

// c01bSchema builds a real schema with the reflective schema builder: value and
// pointer element lists, a batch field over map[batch.Index]*Item and one over
// map[batch.Index]Item, each returning f(source) = V*2+1 keyed by the index it
// was given.
func c01bSchema(d *c01bData, ptrFunc bool, withFallback bool, useBatch bool, k int) *graphql.Schema {
	s := NewSchema()
	q := s.Query()
	q.FieldFunc("values", func() []c01bItem { return d.items })
	q.FieldFunc("pointers", func() []*c01bItem { return d.ptrs })
	obj := s.Object("Item", c01bItem{})
	var opts []FieldFuncOption
	if k != 0 {
		opts = append(opts, NumParallelInvocationsFunc(func(ctx context.Context, n int) int { return k }))
	}
	if ptrFunc {
		fn := func(ctx context.Context, in map[batch.Index]*c01bItem) (map[batch.Index]int64, error) {
			out := map[batch.Index]int64{}
			for i := 0; i < len(in); i++ {
				out[batch.NewIndex(i)] = in[batch.NewIndex(i)].V*2 + 1
			}
			return out, nil
		}
		if withFallback {
			obj.BatchFieldFuncWithFallback("w", fn, func(ctx context.Context, it *c01bItem) (*int64, error) { r := it.V*2 + 1; return &r, nil }, func(context.Context) bool { return useBatch }, opts...)
		} else {
			obj.BatchFieldFunc("w", fn, opts...)
		}
	} else {
		fn := func(ctx context.Context, in map[batch.Index]c01bItem) (map[batch.Index]int64, error) {
			out := map[batch.Index]int64{}
			for i := 0; i < len(in); i++ {
				out[batch.NewIndex(i)] = in[batch.NewIndex(i)].V*2 + 1
			}
			return out, nil
		}
		if withFallback {
			obj.BatchFieldFuncWithFallback("w", fn, func(ctx context.Context, it c01bItem) (*int64, error) { r := it.V*2 + 1; return &r, nil }, func(context.Context) bool { return useBatch }, opts...)
		} else {
			obj.BatchFieldFunc("w", fn, opts...)
		}
	}
	return s.MustBuild()
}

// VerifC01BuilderBatch: batch index mapping through the real schema builder
// (prepareResolveArgs / extractResultsAndErr): result i belongs to source i,
// for value and pointer sources, pointer and value batch functions, with and
// without fallback, split into k parallel invocations.
func VerifC01BuilderBatch() {
	n := nondet.Choice("n", 4)
	d := &c01bData{}
	for i := 0; i < n; i++ {
		it := c01bItem{ID: int64(i + 1), V: nondet.Int64("v" + strconv.Itoa(i))}
		d.items = append(d.items, it)
		p := it
		d.ptrs = append(d.ptrs, &p)
	}
	ptrFunc := nondet.Choice("ptrFunc", 2) == 1
	withFallback := nondet.Choice("fallback", 2) == 1
	useBatch := true
	if withFallback {
		useBatch = nondet.Choice("useBatch", 2) == 1
	}
	k := 0
	if nondet.Choice("parallel", 2) == 1 {
		k = nondet.Int("k")
	}
	schema := c01bSchema(d, ptrFunc, withFallback, useBatch, k)
	field := "values"
	if nondet.Choice("pointers", 2) == 1 {
		field = "pointers"
	}
	q, err := graphql.Parse("{ "+field+" { iD w } }", nil)
	nondet.Assert(err == nil, "parses")
	if err != nil {
		return
	}
	ctx := context.Background()
	err = graphql.PrepareQuery(ctx, schema.Query, q.SelectionSet)
	nondet.Assert(err == nil, "validates")
	if err != nil {
		return
	}
	val, err := graphql.NewExecutor(graphql.NewImmediateGoroutineScheduler()).Execute(ctx, schema.Query, nil, q)
	nondet.Assert(err == nil, "no-error")
	if err != nil {
		return
	}
	list := val.(map[string]interface{})[field].([]interface{})
	nondet.Assert(len(list) == n, "list-length")
	for i := 0; i < len(list) && i < n; i++ {
		m := list[i].(map[string]interface{})
		nondet.Assert(nondet.DeepEq(m["iD"], int64(i+1)), "order-kept")
		nondet.Assert(nondet.DeepEq(m["w"], d.items[i].V*2+1), "result-of-own-source")
	}
	nondet.Cover("builder-batch")
}
