//go:build verif
// +build verif

package graphql

import (
	"context"
	"strconv"

	"github.com/samsarahq/thunder/reactive"

	"github.com/samsarahq/thunder/internal/zzverif/nondet"
)

const c01ItemKinds = 14

func c01ItemSel(name string) *xNode {
	switch nondet.Choice(name, c01ItemKinds) {
	case 0:
		return xF("v")
	case 1:
		return xAs("v2", xF("v"))
	case 2:
		return xF("e")
	case 3:
		return xF("sub", xF("c"))
	case 4:
		return xF("sub", xAs("c2", xF("c")), xAs("t", xF("__typename")))
	case 5:
		return xF("nums")
	case 6:
		return xF("u", xOn("A", xF("x")), xOn("B", xF("y")))
	case 7:
		return xF("u", xF("__typename"), xOn("A", xF("x")))
	case 8:
		return xAs("kind", xF("__typename"))
	case 9:
		return xOn("Item", xF("v"))
	case 10:
		return xOn("Item", xF("sub", xAs("c3", xF("c"))))
	case 11:
		return xF("u", xOn("A", xF("x")), xOn("A", xAs("x2", xF("x"))))
	case 12:
		return xF("subs", xF("c"))
	}
	return xF("id")
}

func c01Compare(sch *xSchema, root *xRoot, nodes []*xNode, sched WorkScheduler) {
	res := sch.xRun(root, nodes, sched)
	nondet.Assert(res.prepErr == nil, "valid-query-accepted")
	if res.prepErr != nil {
		return
	}
	nondet.Assert(res.err == nil, "no-error")
	if res.err != nil {
		return
	}
	var errs []xRefError
	want := sch.xEval(sch.query, root, nodes, nil, &errs)
	nondet.Assert(nondet.DeepEq(res.val, want), "result-equal")
	nondet.Cover("compared")
}

// VerifC01ExecMerge: selection merging (aliases, duplicates, inline fragments,
// union fragments, __typename, key fields) over a fixed two-item data shape
// with symbolic leaf values; every unit order while <= 3 units are pending.
func c01ExecMerge(nsel int) {
	cfg := &xConfig{}
	sch := xBuildSchema(cfg)
	root := xFixedRoot()
	n := 1 + nondet.Choice("nsel", nsel)
	var sels []*xNode
	for i := 0; i < n; i++ {
		sels = append(sels, c01ItemSel("sel"+strconv.Itoa(i)))
	}
	var nodes []*xNode
	switch nondet.Choice("top", 3) {
	case 0:
		nodes = []*xNode{xF("items", sels...)}
	case 1:
		nodes = []*xNode{xF("one", sels...), xF("n")}
	case 2:
		// the same field twice at top level: merged
		nodes = []*xNode{xF("items", sels[0]), xF("items", sels[1:]...), xF("__typename")}
		if len(sels) == 1 {
			nodes = []*xNode{xF("items", sels[0]), xF("items", xF("id"))}
		}
	}
	c01Compare(sch, root, nodes, &xChoiceScheduler{width: 3, name: "sched"})
}

func VerifC01ExecMerge2() { c01ExecMerge(2) }
func VerifC01ExecMerge3() { c01ExecMerge(3) }

// VerifC01ExecModes: per-field execution modes for a scalar field and an object
// field (plain / external / expensive / batch / batch-with-fallback /
// NumParallelInvocations = symbolic k), list length 0..maxItems with nil
// sub-objects by choice, every unit order (<= 3 pending).
func c01ExecModes(maxItems int, width int) {
	cfg := &xConfig{modes: map[string]int{}}
	cfg.modes["Item.v"] = nondet.Choice("mode.v", xNumModes)
	cfg.modes["Item.sub"] = nondet.Choice("mode.sub", xNumModes)
	cfg.k = nondet.Int("k")
	sch := xBuildSchema(cfg)
	n := nondet.Choice("items", maxItems+1)
	root := &xRoot{}
	for i := 0; i < n; i++ {
		root.Items = append(root.Items, xMkItem("i"+strconv.Itoa(i), int64(i+1), nondet.Choice("subnil"+strconv.Itoa(i), 2) == 1, 0, 0))
	}
	nodes := []*xNode{xF("items", xF("v"), xF("sub", xF("c")), xAs("w", xF("v")))}
	var sched WorkScheduler = &xChoiceScheduler{width: width, name: "sched"}
	if nondet.Choice("lifo", 2) == 1 {
		sched = &xLIFOScheduler{}
	}
	c01Compare(sch, root, nodes, sched)
}

func VerifC01ExecModes2() { c01ExecModes(2, 2) }
func VerifC01ExecModes3() { c01ExecModes(3, 3) }

// VerifC01ExecShapes: nil objects, union members and nested lists by choice.
func VerifC01ExecShapes() {
	cfg := &xConfig{}
	sch := xBuildSchema(cfg)
	root := &xRoot{N: nondet.Int64("n")}
	n := nondet.Choice("items", 3)
	for i := 0; i < n; i++ {
		p := "i" + strconv.Itoa(i)
		root.Items = append(root.Items, xMkItem(p, int64(i+1), nondet.Choice(p+".subnil", 2) == 1, nondet.Choice(p+".u", 3), nondet.Choice(p+".nums", 3)))
	}
	if nondet.Choice("one", 2) == 1 {
		root.One = xMkItem("one", 9, false, nondet.Choice("one.u", 3), 1)
	}
	body := []*xNode{xF("sub", xF("c")), xF("nums"), xF("e"), xF("u", xF("__typename"), xOn("A", xF("x")), xOn("B", xF("y"), xAs("t", xF("__typename"))))}
	nodes := []*xNode{xF("items", body...), xAs("first", xF("one", body...)), xF("n")}
	c01Compare(sch, root, nodes, &xChoiceScheduler{width: 2, name: "sched"})
}

// VerifC01ExecSharedFragment: one named fragment spread in two places whose
// merged sub-selection is completed differently at each place, parsed by the
// real parser; the merged field runs in every execution mode and under every
// unit order (<= 3 pending) or LIFO. One use must never affect the other.
func VerifC01ExecSharedFragment() {
	cfg := &xConfig{modes: map[string]int{}}
	cfg.modes["Item.sub"] = nondet.Choice("mode.sub", xNumModes)
	cfg.k = nondet.Int("k")
	sch := xBuildSchema(cfg)
	root := xFixedRoot()
	inner := []*xNode{xF("c")}
	switch nondet.Choice("common", 3) {
	case 1:
		inner = append(inner, xAs("c2", xF("c")))
	case 2:
		inner = append(inner, xAs("c2", xF("c")), xF("__typename"))
	}
	common := &xFragDef{name: "Common", on: "Item", subs: []*xNode{xF("sub", inner...)}}
	nodes := []*xNode{
		xAs("first", xF("one", xSpread(common), xOn("Item", xF("sub", xAs("y", xF("c")))))),
		xAs("second", xF("items", xSpread(common), xOn("Item", xF("sub", xAs("z", xF("c")))))),
	}
	var sched WorkScheduler = &xChoiceScheduler{width: 3, name: "sched"}
	if nondet.Choice("lifo", 2) == 1 {
		sched = &xLIFOScheduler{}
	}
	res := sch.xRunText(root, nodes, nil, sched)
	nondet.Assert(res.prepErr == nil, "valid-query-accepted")
	if res.prepErr != nil {
		return
	}
	nondet.Assert(res.err == nil, "no-error")
	if res.err != nil {
		return
	}
	var errs []xRefError
	want := sch.xEval(sch.query, root, nodes, nil, &errs)
	nondet.Assert(nondet.DeepEq(res.val, want), "result-equal")
	nondet.Cover("shared-fragment")
}

func VerifC01ExecWitness() {
	cfg := &xConfig{modes: map[string]int{"Item.v": xBatchParallel}}
	cfg.k = nondet.Int("k")
	sch := xBuildSchema(cfg)
	root := xFixedRoot()
	res := sch.xRun(root, []*xNode{xF("items", xF("v"))}, &xLIFOScheduler{})
	if res.err == nil && cfg.calls["Item.v"] == 2 {
		nondet.Assert(false, "reachability")
	}
}

// VerifC01ExecLive: execution under a reactive.Rerunner (as live queries run):
// expensive fields are then memoised with reactive.Cache per (field, source
// object, selection). The same source object is reached on two paths, where
// the same field (same alias) carries different sub-selections; each path must
// get its own answer.
func VerifC01ExecLive() {
	cfg := &xConfig{modes: map[string]int{}}
	cfg.modes["Item.sub"] = nondet.Choice("mode.sub", xNumModes)
	cfg.modes["Item.v"] = nondet.Choice("mode.v", xNumModes)
	cfg.k = 2
	sch := xBuildSchema(cfg)
	root := xFixedRoot()
	var second []*xNode
	switch nondet.Choice("second", 3) {
	case 0:
		second = []*xNode{xF("sub", xAs("c2", xF("c"))), xF("v")}
	case 1:
		second = []*xNode{xF("sub", xF("c"), xAs("t", xF("__typename"))), xAs("v", xF("id"))}
	case 2:
		second = []*xNode{xF("sub", xF("__typename")), xF("v")}
	}
	nodes := []*xNode{
		xAs("a", xF("one", xF("sub", xF("c")), xF("v"))),
		xAs("b", xF("one", second...)),
	}
	q := &Query{Name: "q", Kind: "query", SelectionSet: xBuildSelectionSet(nodes)}
	nondet.Assert(PrepareQuery(context.Background(), sch.gql, q.SelectionSet) == nil, "valid-query-accepted")
	var val interface{}
	var err error
	runs := 0
	rr := reactive.NewRerunner(context.Background(), func(ctx context.Context) (interface{}, error) {
		runs++
		val, err = NewExecutor(&xLIFOScheduler{}).Execute(ctx, sch.gql, root, q)
		return nil, err
	}, 0, false)
	nondet.Quiesce()
	rr.Stop()
	nondet.Assert(runs == 1 && err == nil, "no-error")
	var errs []xRefError
	want := sch.xEval(sch.query, root, nodes, nil, &errs)
	nondet.Assert(nondet.DeepEq(val, want), "result-equal")
	nondet.Cover("live")
}
