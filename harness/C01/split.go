//go:build verif
// +build verif

package graphql

import (
	"github.com/samsarahq/thunder/internal/zzverif/nondet"
)

// mkSplitUnit builds a work unit whose i-th source is the int i and whose i-th
// destination is a distinct output node remembered in the returned slice.
func verifMkSplitUnit(n int) (*WorkUnit, []*outputNode) {
	dests := make([]*outputNode, n)
	srcs := make([]interface{}, n)
	for i := 0; i < n; i++ {
		dests[i] = &outputNode{}
		srcs[i] = i
	}
	return &WorkUnit{sources: srcs, destinations: dests, objectName: "o", useBatch: true}, dests
}

func verifCheckSplit(n int, out []*WorkUnit, dests []*outputNode, maxUnits int) {
	seen := make([]int, n)
	for _, u := range out {
		nondet.Assert(len(u.sources) == len(u.destinations), "parallel")
		nondet.Assert(u.objectName == "o" && u.useBatch, "unit-fields-kept")
		if n > 0 {
			nondet.Assert(len(u.sources) > 0, "no-empty-unit")
		}
		for j := range u.sources {
			tag, ok := u.sources[j].(int)
			nondet.Assert(ok, "source-is-int")
			nondet.Assert(tag >= 0 && tag < n, "source-in-range")
			nondet.Assert(u.destinations[j] == dests[tag], "paired")
			seen[tag]++
		}
	}
	for i := range seen {
		nondet.Assert(seen[i] == 1, "exactly-once")
	}
	nondet.Assert(len(out) <= maxUnits, "unit-count")
}

// VerifC01SplitToN: splitToNWorkUnits for every int numUnits and n in [0,5].
func VerifC01SplitToN() {
	n := nondet.Choice("n", 6)
	k := nondet.Int("numUnits")
	unit, dests := verifMkSplitUnit(n)
	out := splitToNWorkUnits(unit, k)
	max := n
	if max < 1 {
		max = 1
	}
	verifCheckSplit(n, out, dests, max)
	// order inside a unit must follow source order (list order kept)
	for _, u := range out {
		for j := 1; j < len(u.sources); j++ {
			nondet.Assert(u.sources[j-1].(int) < u.sources[j].(int), "order-kept")
		}
	}
	nondet.Cover("split-to-n-done")
}

func VerifC01SplitToNWitness() {
	n := nondet.Choice("n", 6)
	k := nondet.Int("numUnits")
	unit, _ := verifMkSplitUnit(n)
	out := splitToNWorkUnits(unit, k)
	if n >= 2 && len(out) == 2 {
		nondet.Assert(false, "reachability")
	}
}

// VerifC01SplitUnit: splitWorkUnit yields one unit per pair.
func VerifC01SplitUnit() {
	n := nondet.Choice("n", 6)
	unit, dests := verifMkSplitUnit(n)
	out := splitWorkUnit(unit)
	nondet.Assert(len(out) == n, "one-per-source")
	verifCheckSplit(n, out, dests, n)
	nondet.Cover("split-done")
}
