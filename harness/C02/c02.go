//go:build verif
// +build verif

package graphql

import (
	"context"
	"strconv"

	"github.com/samsarahq/thunder/internal/zzverif/nondet"
)

// C02: a client that folds every update envelope of a subscription, in order,
// starting from nothing, holds at quiescence exactly the result of the query on
// the final data with key fields removed.

var c02Queries = []string{"{ live }", "{ items { v } }", "{ live items { v } }"}

// c02Fold replays the update envelopes of one id the way the client does
// (wire normalisation + the documented merge).
func c02Fold(out []outEnvelope, id string) (state interface{}, n int) {
	for _, env := range out {
		if env.ID != id || env.Type != "update" {
			continue
		}
		var wire interface{}
		if _, empty := env.Message.(struct{}); empty {
			wire = map[string]interface{}{}
		} else {
			var ok bool
			wire, ok = c03JSONNorm(env.Message, false)
			nondet.Assert(ok, "update-json-safe")
		}
		if n == 0 {
			// first message: a full update, i.e. it must reconstruct a value from nothing
			nondet.Cover("first-update")
		}
		next, ok := c03RefMerge(state, wire)
		nondet.Assert(ok, "client-merge-accepts")
		state = next
		n++
	}
	return state, n
}

// c02Write performs one data change followed by the invalidation of everything
// that depends on the data.
var c02Ops = []int{0, 1, 2, 3, 4, 5, 6}

func c02Write(w *kWorld, name string) {
	switch c02Ops[nondet.Choice(name+".op", len(c02Ops))] {
	case 0:
		w.version = nondet.Int64(name + ".version")
	case 1:
		if len(w.items) >= 2 {
			w.items[0], w.items[1] = w.items[1], w.items[0]
		}
	case 2:
		if len(w.items) >= 1 {
			w.items = append([]*xItem{}, w.items[1:]...)
		}
	case 3:
		w.items = append(append([]*xItem{}, w.items...), &xItem{ID: 7, V: nondet.Int64(name + ".newv")})
	case 6:
		// an element becomes null in place (same length, same order)
		if len(w.items) >= 1 {
			w.items = append([]*xItem{nil}, w.items[1:]...)
		}
	case 5:
		w.items = []*xItem{}
	case 4:
		if len(w.items) >= 1 {
			// a changed object is a new object (resolvers hold on to the old one)
			it := *w.items[0]
			it.V = nondet.Int64(name + ".v")
			w.items = append([]*xItem{&it}, w.items[1:]...)
		}
	}
	kInvalidate(w)
}

func c02Run(qs []string, second []int, nwrites int) {
	w := &kWorld{version: nondet.Int64("v0")}
	w.items = []*xItem{{ID: 1, V: nondet.Int64("i1")}, {ID: 2, V: nondet.Int64("i2")}}
	queries := map[string]string{}
	qa := qs[nondet.Choice("qa", len(qs))]
	queries["a"] = qa
	script := []*inEnvelope{kEnvelope(kmSubscribe, "a", qa)}
	switch second[nondet.Choice("second", len(second))] {
	case 1:
		qb := qs[nondet.Choice("qb", len(qs))]
		queries["b"] = qb
		script = append(script, kEnvelope(kmSubscribe, "b", qb))
	case 2:
		script = append(script, kEnvelope(kmUnsubscribe, "a", ""))
		delete(queries, "a")
	case 3:
		script = append(script, kEnvelope(kmMutate, "b", ""))
	}
	k := kStart(w, script, 3)
	if nwrites > 0 {
		nondet.Go("writer", func() {
			for i := 0; i < nwrites; i++ {
				nondet.Yield()
				c02Write(w, "w"+strconv.Itoa(i))
			}
		})
	}
	k.mid = func() {
		for _, id := range []string{"a", "b"} {
			q, live := queries[id]
			got, n := c02Fold(k.sock.out, id)
			if !live {
				continue
			}
			nondet.Assert(n >= 1, "first-update-sent")
			parsed, err := Parse(q, nil)
			nondet.Assert(err == nil, "harness-query-parses")
			schema := kSchema(&kWorld{version: w.version, items: w.items})
			nondet.Assert(PrepareQuery(context.Background(), schema.Query, parsed.SelectionSet) == nil, "harness-query-valid")
			want, err := NewExecutor(&xLIFOScheduler{}).Execute(context.Background(), schema.Query, nil, parsed)
			nondet.Assert(err == nil, "harness-query-runs")
			nondet.Assert(nondet.DeepEq(got, c03RefStrip(want)), "client-state-is-current-result")
			nondet.Cover("converged")
		}
		nondet.Assert(k.sock.updatesAfterUnsub == 0, "no-update-after-unsubscribe")
	}
	k.kFinish()
	nondet.Assert(k.sock.updatesAfterUnsub == 0, "no-update-after-unsubscribe")
}

// quick: subscribe a to the query with both fields, then nothing or unsubscribe a; one data change of 5 kinds with symbolic values
func VerifC02One() { c02Run(c02Queries[2:], []int{0, 2}, 1) }

// quick: subscribe a, then a mutation on the same connection; one data change
func VerifC02Mutate() { c02Run(c02Queries[2:], []int{3}, 0) }

// thorough: subscribe a, a mutation, and a racing data change
func VerifC02MutateWrite() {
	c02Ops = []int{0, 2}
	c02Run(c02Queries[2:], []int{3}, 1)
}

// thorough: all three queries, any second message but a second subscription, one data change
func VerifC02OneAll() { c02Run(c02Queries, []int{0, 2}, 1) }

// thorough: two subscriptions with independently chosen queries, one data change
func VerifC02TwoSubs() { c02Run(c02Queries[:2], []int{1}, 1) }

// thorough: one subscription, two data changes
func VerifC02TwoWrites() {
	c02Ops = []int{0, 2, 3}
	c02Run(c02Queries[2:], []int{0}, 2)
}

// VerifC02Cached: a cached (expensive) field under a list element that leaves
// the result, changes, and comes back as the same source object.
func VerifC02Cached() {
	it1, it2 := &xItem{ID: 1}, &xItem{ID: 2}
	w := &kWorld{score: map[int64]int64{1: nondet.Int64("s1"), 2: nondet.Int64("s2")}}
	w.items = []*xItem{it1, it2}
	q := "{ items { w } }"
	k := kStart(w, []*inEnvelope{kEnvelope(kmSubscribe, "a", q)}, 3)
	// the steps are separated by quiescence (the scenario needs no race between
	// the writer and the recomputations; each phase still explores every schedule
	// of the recomputation, invalidation and release goroutines)
	nondet.Quiesce()
	// the element leaves the result and its data changes
	w.items = []*xItem{it2}
	w.score[1] = nondet.Int64("s1b")
	kInvalidate(w)
	nondet.Quiesce()
	// the element comes back (same object: same cache key)
	w.items = []*xItem{it1, it2}
	kInvalidate(w)
	k.mid = func() {
		got, n := c02Fold(k.sock.out, "a")
		nondet.Assert(n >= 1, "first-update-sent")
		parsed, err := Parse(q, nil)
		nondet.Assert(err == nil, "harness-query-parses")
		schema := kSchema(&kWorld{items: w.items, score: w.score})
		nondet.Assert(PrepareQuery(context.Background(), schema.Query, parsed.SelectionSet) == nil, "harness-query-valid")
		want, err := NewExecutor(&xLIFOScheduler{}).Execute(context.Background(), schema.Query, nil, parsed)
		nondet.Assert(err == nil, "harness-query-runs")
		nondet.Assert(nondet.DeepEq(got, c03RefStrip(want)), "client-state-is-current-result")
		nondet.Cover("converged")
	}
	k.kFinish()
}

func VerifC02Witness() {
	w := &kWorld{version: 5}
	k := kStart(w, []*inEnvelope{kEnvelope(kmSubscribe, "a", "{ live }")}, 3)
	nondet.Quiesce()
	got, n := c02Fold(k.sock.out, "a")
	if n == 1 && nondet.DeepEq(got, map[string]interface{}{"live": int64(5)}) {
		nondet.Assert(false, "reachability")
	}
}
