//go:build verif
// +build verif

package graphql

import (
	"sort"
	"strconv"

	"github.com/samsarahq/thunder/diff"
	"github.com/samsarahq/thunder/internal/zzverif/nondet"
	"github.com/samsarahq/thunder/merge"
)

// ---------------------------------------------------------------------------
// Reference side (independent of diff/merge): key stripping, the JSON wire
// normalisation of a delta, and the documented merge (client/src/merge.ts).

func c03Keys(m map[string]interface{}) []string {
	ks := make([]string, 0, len(m))
	for k := range m {
		ks = append(ks, k)
	}
	sort.Strings(ks)
	return ks
}

func c03RefStrip(v interface{}) interface{} {
	switch v := v.(type) {
	case map[string]interface{}:
		r := make(map[string]interface{})
		for _, k := range c03Keys(v) {
			if k != "__key" {
				r[k] = c03RefStrip(v[k])
			}
		}
		return r
	case []interface{}:
		r := make([]interface{}, 0, len(v))
		for _, e := range v {
			r = append(r, c03RefStrip(e))
		}
		return r
	}
	return v
}

func c03Copy(v interface{}) interface{} {
	switch v := v.(type) {
	case map[string]interface{}:
		r := make(map[string]interface{})
		for _, k := range c03Keys(v) {
			r[k] = c03Copy(v[k])
		}
		return r
	case []interface{}:
		r := make([]interface{}, 0, len(v))
		for _, e := range v {
			r = append(r, c03Copy(e))
		}
		return r
	}
	return v
}

// c03JSONNorm models encoding a delta to JSON and decoding it on the client.
// Leaf numbers keep their Go int value (JSON numbers are modelled abstractly);
// the reorder indices become float64 / 2-element arrays as on the wire.
// ok=false: the delta contains something JSON cannot carry in the documented format.
func c03JSONNorm(d interface{}, inOrder bool) (interface{}, bool) {
	switch d := d.(type) {
	case nil, bool, int, int64, string:
		if i, isInt := d.(int); isInt && inOrder {
			return float64(i), true
		}
		return d, true
	case [2]int:
		if !inOrder {
			return nil, false
		}
		return []interface{}{float64(d[0]), float64(d[1])}, true
	case map[string]interface{}:
		if inOrder {
			return nil, false
		}
		if d == nil {
			return nil, true
		}
		r := make(map[string]interface{})
		for _, k := range c03Keys(d) {
			v, ok := c03JSONNorm(d[k], k == "$")
			if !ok {
				return nil, false
			}
			r[k] = v
		}
		return r, true
	case []interface{}:
		if d == nil {
			// a nil slice is encoded as JSON null, not as []
			return nil, true
		}
		r := make([]interface{}, 0, len(d))
		for _, e := range d {
			v, ok := c03JSONNorm(e, inOrder)
			if !ok {
				return nil, false
			}
			r = append(r, v)
		}
		return r, true
	}
	return nil, false
}

// c03RefMerge is a transliteration of client/src/merge.ts (the documented
// delta format: runs are [start, COUNT]; 1-element array wraps a complex
// replacement; 0-element array removes a field).
func c03RefMerge(orig, upd interface{}) (res interface{}, ok bool) {
	if a, isArr := upd.([]interface{}); isArr {
		if len(a) == 0 {
			return nil, false
		}
		return a[0], true
	}
	u, isObj := upd.(map[string]interface{})
	if !isObj {
		return upd, true
	}
	if oarr, isArr := orig.([]interface{}); isArr {
		var order []interface{}
		if o, has := u["$"]; has && o != nil { // merge.ts: update.$ || identity
			order, ok = o.([]interface{})
			if !ok {
				return nil, false
			}
		} else {
			order = []interface{}{[]interface{}{float64(0), float64(len(oarr))}}
		}
		merged := make([]interface{}, 0)
		for _, x := range order {
			switch x := x.(type) {
			case []interface{}:
				if len(x) != 2 {
					return nil, false
				}
				s, ok1 := x[0].(float64)
				c, ok2 := x[1].(float64)
				if !ok1 || !ok2 {
					return nil, false
				}
				for i := int(s); i < int(s)+int(c); i++ {
					if i < 0 || i >= len(oarr) {
						return nil, false
					}
					merged = append(merged, oarr[i])
				}
			case float64:
				if x == -1 {
					merged = append(merged, nil)
				} else {
					if int(x) < 0 || int(x) >= len(oarr) {
						return nil, false
					}
					merged = append(merged, oarr[int(x)])
				}
			default:
				return nil, false
			}
		}
		for _, k := range c03Keys(u) {
			if k == "$" {
				continue
			}
			idx, err := strconv.Atoi(k)
			if err != nil || idx < 0 || idx >= len(merged) {
				return nil, false
			}
			v, ok := c03RefMerge(merged[idx], u[k])
			if !ok {
				return nil, false
			}
			merged[idx] = v
		}
		return merged, true
	}
	out := make(map[string]interface{})
	if o, isMap := orig.(map[string]interface{}); isMap {
		for _, k := range c03Keys(o) {
			out[k] = o[k]
		}
	}
	for _, k := range c03Keys(u) {
		v := u[k]
		if a, isArr := v.([]interface{}); isArr && len(a) == 0 {
			delete(out, k)
			continue
		}
		var prev interface{}
		if p, has := out[k]; has {
			prev = p
		}
		nv, ok := c03RefMerge(prev, v)
		if !ok {
			return nil, false
		}
		out[k] = nv
	}
	return out, true
}

// ---------------------------------------------------------------------------
// The round-trip obligation for one pair.

func c03Check(old, new interface{}) {
	oldCopy, newCopy := c03Copy(old), c03Copy(new)
	d := diff.Diff(old, new)
	nondet.Assert(nondet.DeepEq(old, oldCopy), "args-unchanged")
	nondet.Assert(nondet.DeepEq(new, newCopy), "args-unchanged")

	wantNew := c03RefStrip(new)
	clientOld := c03RefStrip(old)
	nondet.Assert(nondet.DeepEq(diff.StripKey(new), wantNew), "stripkey-equals-reference")

	if d == nil {
		// nil delta: nothing is sent, the client keeps its value
		nondet.Assert(nondet.DeepEq(clientOld, wantNew), "nil-diff-means-equal")
		nondet.Cover("nil-diff")
		return
	}
	wire, ok := c03JSONNorm(d, false)
	nondet.Assert(ok, "json-safe")
	if !ok {
		return
	}
	// (c) documented format / JavaScript client
	got, ok := c03RefMerge(clientOld, wire)
	nondet.Assert(ok, "wire-merge-accepts")
	if ok {
		nondet.Assert(nondet.DeepEq(got, wantNew), "wire-merge")
	}
	// (b) thunder's Go merge
	gm, err := merge.Merge(diff.StripKey(old), wire)
	nondet.Assert(err == nil, "go-merge-accepts")
	if err == nil {
		nondet.Assert(nondet.DeepEq(gm, wantNew), "go-merge")
	}
	nondet.Cover("non-nil-diff")
}

// ---------------------------------------------------------------------------
// Input generators.

func c03Scalar(name string) interface{} {
	switch nondet.Choice(name+".kind", 4) {
	case 0:
		return nondet.Int(name + ".int")
	case 1:
		return nondet.StringFrom(name+".str", "x", "y")
	case 2:
		return nondet.Bool(name + ".bool")
	}
	return nil
}

// c03Field: a field value for profile P1: absent / scalar / small array / small object.
func c03Field(name string) (interface{}, bool) {
	switch nondet.Choice(name+".shape", 5) {
	case 0:
		return nil, false
	case 1:
		return nondet.Int(name + ".int"), true
	case 2:
		return c03Scalar(name + ".s"), true
	case 3:
		n := nondet.Choice(name+".len", 3)
		arr := make([]interface{}, n)
		for i := 0; i < n; i++ {
			arr[i] = nondet.Int(name + ".e" + strconv.Itoa(i))
		}
		return arr, true
	}
	o := map[string]interface{}{}
	if nondet.Choice(name+".haskey", 2) == 1 {
		o["__key"] = nondet.Int(name + ".key")
	}
	o["c"] = nondet.Int(name + ".c")
	return o, true
}

func c03Object(name string, fields []string) map[string]interface{} {
	o := map[string]interface{}{}
	for _, f := range fields {
		if v, ok := c03Field(name + "." + f); ok {
			o[f] = v
		}
	}
	return o
}

// VerifC03Objects (P1): objects whose fields appear / disappear / change kind.
func VerifC03Objects() {
	old := c03Object("old", []string{"a", "b"})
	new := c03Object("new", []string{"a", "b"})
	c03Check(old, new)
}

// VerifC03ObjectsQuick: one field.
func VerifC03ObjectsQuick() {
	old := c03Object("old", []string{"a"})
	new := c03Object("new", []string{"a"})
	c03Check(old, new)
}

func c03IntArray(name string, maxLen int) []interface{} {
	n := nondet.Choice(name+".len", maxLen+1)
	arr := make([]interface{}, n)
	for i := 0; i < n; i++ {
		arr[i] = nondet.Int(name + "." + strconv.Itoa(i))
	}
	return arr
}

// VerifC03ScalarArrays (P2): arrays of symbolic ints; the solver explores every
// equality pattern (duplicates, reorders, insertions, deletions, truncations).
func VerifC03ScalarArrays3() {
	c03Check(c03IntArray("old", 3), c03IntArray("new", 3))
}

func VerifC03ScalarArrays4() {
	c03Check(c03IntArray("old", 4), c03IntArray("new", 4))
}

func VerifC03ScalarArrays5() {
	c03Check(c03IntArray("old", 5), c03IntArray("new", 4))
}

func c03KeyedArray(name string, maxLen int) []interface{} {
	n := nondet.Choice(name+".len", maxLen+1)
	arr := make([]interface{}, n)
	for i := 0; i < n; i++ {
		p := name + "." + strconv.Itoa(i)
		arr[i] = map[string]interface{}{"__key": nondet.Int(p + ".key"), "v": nondet.Int(p + ".v")}
	}
	return arr
}

// VerifC03KeyedArrays (P3): arrays of keyed objects, symbolic keys and values.
func VerifC03KeyedArrays2() {
	c03Check(c03KeyedArray("old", 2), c03KeyedArray("new", 2))
}

func VerifC03KeyedArrays3() {
	c03Check(c03KeyedArray("old", 3), c03KeyedArray("new", 3))
}

// c03Nested: a value of bounded depth (P4).
func c03Nested(name string, depth int) interface{} {
	k := 3
	if depth > 0 {
		k = 5
	}
	switch nondet.Choice(name+".kind", k) {
	case 0:
		return nil
	case 1:
		return nondet.Int(name + ".int")
	case 2:
		return nondet.StringFrom(name+".str", "x", "y")
	case 3:
		o := map[string]interface{}{}
		if nondet.Choice(name+".haskey", 2) == 1 {
			o["__key"] = nondet.Int(name + ".key")
		}
		if nondet.Choice(name+".hasf", 2) == 1 {
			o["f"] = c03Nested(name+".f", depth-1)
		}
		return o
	}
	n := nondet.Choice(name+".len", 3)
	arr := make([]interface{}, n)
	for i := 0; i < n; i++ {
		arr[i] = c03Nested(name+"."+strconv.Itoa(i), depth-1)
	}
	return arr
}

// VerifC03Nested (P4): nesting depth 2 on one side, depth 1 on the other,
// under a top-level object field (depth 2 on both sides is ~4*10^5 shape pairs).
func VerifC03NestedDeepNew() {
	old := map[string]interface{}{"r": c03Nested("old", 1)}
	new := map[string]interface{}{"r": c03Nested("new", 2)}
	c03Check(old, new)
}

func VerifC03NestedDeepOld() {
	old := map[string]interface{}{"r": c03Nested("old", 2)}
	new := map[string]interface{}{"r": c03Nested("new", 1)}
	c03Check(old, new)
}

func VerifC03NestedQuick() {
	c03Check(c03Nested("old", 1), c03Nested("new", 1))
}

// VerifC03Replace: wholesale replacements (kind changes) whose new value is a
// complex value containing keyed objects, at top level and under a field.
func VerifC03Replace() {
	var old interface{}
	switch nondet.Choice("old.kind", 4) {
	case 0:
		old = nil
	case 1:
		old = nondet.Int("old.int")
	case 2:
		old = map[string]interface{}{"__key": nondet.Int("old.key"), "v": nondet.Int("old.v")}
	case 3:
		old = c03IntArray("old.arr", 1)
	}
	var new interface{}
	switch nondet.Choice("new.kind", 3) {
	case 0:
		new = c03KeyedArray("new", 2)
	case 1:
		new = map[string]interface{}{"__key": nondet.Int("new.key"), "l": c03KeyedArray("new.l", 1)}
	case 2:
		new = []interface{}{c03KeyedArray("new.in", 1), nondet.Int("new.i")}
	}
	if nondet.Choice("under-field", 2) == 1 {
		c03Check(map[string]interface{}{"a": old}, map[string]interface{}{"a": new})
	} else {
		c03Check(old, new)
	}
}

// VerifC03Self: Diff(v, v') is nil whenever v' is structurally equal to v.
// VerifC03Aliased: old and new share one backing array (a resolver returning a
// prefix, or an in-place extension, of a cached slice): the lengths differ or
// not, the first element is the same memory. Also nested one level down.
func VerifC03Aliased() {
	n := nondet.Choice("cap", 4)
	base := make([]interface{}, n, n+1)
	for i := 0; i < n; i++ {
		base[i] = nondet.Int("base." + strconv.Itoa(i))
	}
	var old, new []interface{}
	switch nondet.Choice("how", 3) {
	case 0: // truncated prefix (including the empty prefix)
		old, new = base, base[:nondet.Choice("k", n+1)]
	case 1: // grown from a prefix
		old, new = base[:nondet.Choice("k", n+1)], base
	case 2: // appended in place into spare capacity
		old, new = base, append(base, nondet.Int("extra"))
	}
	if nondet.Choice("nest", 2) == 1 {
		c03Check(map[string]interface{}{"a": old, "b": 1}, map[string]interface{}{"a": new, "b": 1})
	} else {
		c03Check(old, new)
	}
}

func VerifC03Self() {
	v := c03Nested("v", 2)
	w := c03Copy(v)
	nondet.Assert(diff.Diff(v, w) == nil, "self-empty")
	nondet.Assert(diff.Diff(v, v) == nil, "self-empty")
	nondet.Cover("self")
}

func VerifC03Witness() {
	old := c03IntArray("old", 3)
	new := c03IntArray("new", 3)
	d := diff.Diff(old, new)
	if d != nil && len(old) == 3 && len(new) == 2 {
		nondet.Assert(false, "reachability")
	}
}
