//go:build verif
// +build verif

package reactive

import (
	"context"
	"errors"
	"strconv"

	"github.com/samsarahq/thunder/internal/zzverif/nondet"
)

// The world models how thunder's own clients (livesql) use resources: every
// run of the computation creates a fresh Resource per datum, registers it with
// a tracker and only then reads the datum; a writer changes the datum and then
// invalidates (or strobes) every registered resource of that datum. A Resource
// is never reused after its last dependent went away (release implies
// invalidation by design).
type c04World struct {
	k        int
	res      [][]*Resource
	version  []int
	read     []int // versions read by the last successful run
	active   int
	runs     int
	maxRuns  int
	stopped  bool // Stop has returned
	failed   bool // compute returned a permanent error
	enteredAfterStop int
	failOnRun int // run number that returns an error (0: never)
	retryOnRun int
	lastOK   bool
	registered map[*Resource]bool // AddDependency has returned for the resource
	hit        map[*Resource]bool // invalidated at any time, or strobed after registration
	lastRes    []*Resource        // resources the last successful run depended on
}

var c04Err = errors.New("compute failed")

func (w *c04World) compute(ctx context.Context) (interface{}, error) {
	if w.registered == nil {
		w.registered, w.hit = map[*Resource]bool{}, map[*Resource]bool{}
	}
	w.active++
	nondet.Assert(w.active <= 1, "no-overlap")
	if w.stopped {
		w.enteredAfterStop++
	}
	w.runs++
	nondet.Assert(w.runs <= w.maxRuns, "run-budget")
	if w.runs > w.maxRuns {
		w.active--
		return nil, c04Err
	}
	read := make([]int, w.k)
	var mine []*Resource
	for i := 0; i < w.k; i++ {
		// register the dependency, then read (the order livesql uses)
		r := NewResource()
		w.res[i] = append(w.res[i], r)
		nondet.Yield() // registering with a tracker and AddDependency are separate steps
		AddDependency(ctx, r, nil)
		w.registered[r] = true
		mine = append(mine, r)
		read[i] = w.version[i]
	}
	w.active--
	if w.runs == w.failOnRun {
		w.failed = true
		return nil, c04Err
	}
	if w.runs == w.retryOnRun {
		return nil, RetrySentinelError
	}
	w.read = read
	w.lastRes = mine
	w.lastOK = true
	return nil, nil
}

// c04Mode narrows the "full" dimensions for entries that must finish: 0 all
// (failure none/fail/retry, 1-2 writes), 1 a failing run and one write, 2 a
// retried run and one write.
var c04Mode int

func c04Run(k, writers int, withStop bool, maxRuns int, full bool) {
	WriteThenReadDelay = 0
	w := &c04World{k: k, maxRuns: maxRuns, registered: map[*Resource]bool{}, hit: map[*Resource]bool{}}
	for i := 0; i < k; i++ {
		w.res = append(w.res, nil)
		w.version = append(w.version, 0)
	}
	failure := 0
	if full {
		switch c04Mode {
		case 1:
			failure = 1
		case 2:
			failure = 2
		default:
			failure = nondet.Choice("failure", 3)
		}
	}
	switch failure {
	case 1:
		w.failOnRun = 1 + nondet.Choice("failOn", 2)
	case 2:
		w.retryOnRun = 1 + nondet.Choice("retryOn", 2)
	}
	spawn := nondet.Choice("alwaysSpawn", 2) == 1
	r := NewRerunner(context.Background(), w.compute, 0, spawn)
	for j := 0; j < writers; j++ {
		target := 0
		if k > 1 {
			target = nondet.Choice("target"+strconv.Itoa(j), k)
		}
		strobe := nondet.Choice("strobe"+strconv.Itoa(j), 2) == 1
		writes := 2
		if full {
			writes = 1 + nondet.Choice("writes"+strconv.Itoa(j), 2)
			if c04Mode != 0 {
				writes = 1
			}
		}
		nondet.Go("writer"+strconv.Itoa(j), func() {
			for n := 0; n < writes; n++ {
				// a writer does other things before and between its writes (also makes
				// the goroutine's start segment empty: see eager start in DESIGN)
				nondet.Yield()
				w.version[target]++
				registered := append([]*Resource{}, w.res[target]...)
				for _, r := range registered {
					if strobe {
						// a strobe only reaches the dependants the resource has at that moment
						if w.registered[r] {
							w.hit[r] = true
						}
						r.Strobe()
					} else {
						// an invalidated resource stays invalid: whoever depends on it, now or later, must re-run
						w.hit[r] = true
						r.Invalidate()
					}
				}
			}
		})
	}
	if withStop && nondet.Choice("stop", 2) == 1 {
		nondet.Go("stopper", func() {
			r.Stop()
			w.stopped = true
			nondet.Assert(w.active == 0, "stop-final")
		})
	}
	nondet.Quiesce()
	nondet.Assert(w.active == 0, "no-overlap")
	nondet.Assert(w.enteredAfterStop == 0, "stop-final")
	if !w.stopped && !w.failed {
		// every invalidated dependency of the last successful run led to a re-run:
		// the last successful run has seen the current versions
		nondet.Assert(w.lastOK, "ran-at-least-once")
		for i := 0; i < k; i++ {
			nondet.Assert(w.read[i] == w.version[i], "fresh-at-quiescence")
		}
		// the statement itself: no resource the last successful run depended on has been
		// invalidated (or strobed while registered) without a later run
		for _, r := range w.lastRes {
			nondet.Assert(!w.hit[r], "rerun-after-invalidation")
		}
		nondet.Cover("fresh")
	}
	if w.runs >= 2 {
		nondet.Cover("rerun")
	}
	r.Stop()
}

// VerifC04One: one resource, one writer.
func VerifC04One() { c04Run(1, 1, true, 6, false) }

// VerifC04OneFull: as One plus compute failing / asking for a retry on run 1 or 2, one or two writes.
func VerifC04OneFull() { c04Run(1, 1, true, 6, true) }

// VerifC04OneFail / OneRetry: one resource, one writer with one write; run 1 or 2
// of the computation fails for good / asks for a retry.
func VerifC04OneFail() {
	c04Mode = 1
	c04Run(1, 1, true, 6, true)
}
func VerifC04OneRetry() {
	c04Mode = 2
	c04Run(1, 1, true, 6, true)
}

// VerifC04Two: two resources, two writers.
func VerifC04Two() { c04Run(2, 2, true, 8, false) }

func VerifC04Witness() {
	WriteThenReadDelay = 0
	w := &c04World{k: 1, maxRuns: 4, res: [][]*Resource{nil}, version: []int{0}}
	r := NewRerunner(context.Background(), w.compute, 0, false)
	nondet.Go("writer", func() {
		nondet.Yield()
		w.version[0]++
		for _, x := range append([]*Resource{}, w.res[0]...) {
			x.Strobe()
		}
	})
	nondet.Quiesce()
	if w.runs == 2 {
		nondet.Assert(false, "reachability")
	}
	r.Stop()
}
