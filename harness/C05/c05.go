//go:build verif
// +build verif

package batch

import (
	"context"
	"errors"
	"strconv"
	"time"

	"github.com/samsarahq/thunder/internal/zzverif/nondet"
)

type c05Arg struct {
	id    int
	v     int64
	shard int // shard class (a shape choice; the value v stays symbolic)
}

func c05F(v int64) int64 { return v*2 + 1 }

const (
	c05OK = iota
	c05Err
	c05Panic
	c05Short
	c05PanicRuntime // a run-time fault (write to a nil map) instead of an explicit panic
)

type c05Call struct {
	arg       *c05Arg
	ctx       context.Context
	cancelled bool // this caller's context gets cancelled by the environment
	returned  bool
	res       interface{}
	err       error
	startedAfterCancelledReturned bool
}

var c05ManyErr = errors.New("many failed")

func c05Run(g int, preCancelOnly bool, full bool) {
	outcome := nondet.Choice("many", 5)
	maxSize := nondet.Choice("maxSize", 4)
	if !full {
		// quick tier: Many ok or panicking (explicitly or with a run-time fault), MaxSize unlimited, 1 or 2
		nondet.Assume(outcome == c05OK || outcome == c05Panic || outcome == c05PanicRuntime)
		nondet.Assume(maxSize <= 2)
	}
	shardOn := nondet.Choice("shard", 2) == 1
	var batches [][]*c05Arg
	// MaxDuration beyond the configured timer horizon: that timer never fires
	// within the explored window (the interval timer already covers "a timer
	// triggers the batch")
	f := &Func{MaxSize: maxSize, MaxDuration: time.Hour}
	if shardOn {
		f.Shard = func(arg interface{}) interface{} { return arg.(*c05Arg).shard }
	}
	f.Many = func(ctx context.Context, args []interface{}) ([]interface{}, error) {
		b := make([]*c05Arg, len(args))
		for i, a := range args {
			b[i] = a.(*c05Arg)
		}
		batches = append(batches, b)
		switch outcome {
		case c05Err:
			return nil, c05ManyErr
		case c05Panic:
			panic("many panicked")
		case c05PanicRuntime:
			var m map[int]int
			m[len(args)] = 1
		}
		out := make([]interface{}, len(args))
		for i, a := range args {
			out[i] = c05F(a.(*c05Arg).v)
		}
		if outcome == c05Short && len(out) > 0 {
			return out[:len(out)-1], nil
		}
		return out, nil
	}
	base := WithBatching(context.Background())
	calls := make([]*c05Call, g)
	// which caller (if any) has its context cancelled, and a late caller that
	// only starts after caller 0 has returned
	cancelWho := nondet.Choice("cancel", g+1) - 1
	late := nondet.Choice("late", 2) == 1
	firstDone := make(chan struct{})
	anyCancel := cancelWho >= 0
	for i := 0; i < g; i++ {
		c := &c05Call{arg: &c05Arg{id: i, v: nondet.Int64("arg" + strconv.Itoa(i))}}
		if shardOn && i > 0 {
			c.arg.shard = nondet.Choice("shard"+strconv.Itoa(i), 2)
		}
		ctx, cancel := context.WithCancel(base)
		c.ctx = ctx
		if i == cancelWho {
			c.cancelled = true
			if preCancelOnly {
				cancel()
			} else {
				nondet.Go("canceller", func() { cancel() })
			}
		}
		calls[i] = c
	}
	for i := 0; i < g; i++ {
		i := i
		c := calls[i]
		nondet.Go("caller"+strconv.Itoa(i), func() {
			if late && i == g-1 {
				<-firstDone
				c.startedAfterCancelledReturned = cancelWho == 0
			}
			c.res, c.err = f.Invoke(c.ctx, c.arg)
			c.returned = true
			if i == 0 {
				close(firstDone)
			}
		})
	}
	nondet.Quiesce()
	for _, c := range calls {
		nondet.Assert(c.returned, "all-return")
	}
	// per call
	for _, c := range calls {
		if !c.returned {
			continue
		}
		if c.err == nil {
			nondet.Assert(nondet.DeepEq(c.res, c05F(c.arg.v)), "own-result")
			nondet.Assert(outcome == c05OK, "failure-reported")
		} else {
			nondet.Assert(outcome != c05OK || anyCancel, "no-spurious-error")
			if c.startedAfterCancelledReturned && !c.cancelled && outcome == c05OK {
				// a call that starts after the cancelled call has returned is not affected by it
				nondet.Assert(false, "late-caller-unaffected")
			}
		}
		n := 0
		for _, b := range batches {
			for _, a := range b {
				if a == c.arg {
					n++
				}
			}
		}
		nondet.Assert(n <= 1, "at-most-once")
		if !anyCancel {
			nondet.Assert(n == 1, "exactly-once-uncancelled")
		}
		if c.startedAfterCancelledReturned && !c.cancelled {
			nondet.Assert(n == 1, "exactly-once-uncancelled")
		}
	}
	for _, b := range batches {
		if maxSize > 0 {
			nondet.Assert(len(b) <= maxSize, "max-size")
		}
		nondet.Assert(len(b) > 0, "non-empty-batch")
		if shardOn {
			for _, a := range b {
				nondet.Assert(a.shard == b[0].shard, "one-shard")
			}
		}
	}
	nondet.Cover("quiescent")
	if len(batches) > 1 {
		nondet.Cover("several-batches")
	}
}

// VerifC05Two: two concurrent callers.
func VerifC05Two() { c05Run(2, false, false) }

// VerifC05TwoFull: as Two with every Many outcome and MaxSize 0..3.
func VerifC05TwoFull() { c05Run(2, false, true) }

// VerifC05Three: three concurrent callers with the quick tier's outcomes and sizes (MaxSize roll-over with a late joiner is reachable).
func VerifC05Three() { c05Run(3, false, false) }

// VerifC05ThreePreCancel: three callers, cancellation (if any) before the calls start.
func VerifC05ThreePreCancel() { c05Run(3, true, false) }

func VerifC05Witness() {
	f := &Func{MaxSize: 2}
	n := 0
	f.Many = func(ctx context.Context, args []interface{}) ([]interface{}, error) {
		n += len(args)
		return args, nil
	}
	base := WithBatching(context.Background())
	for i := 0; i < 2; i++ {
		i := i
		nondet.Go("c"+strconv.Itoa(i), func() { f.Invoke(base, i) })
	}
	nondet.Quiesce()
	if n == 2 {
		nondet.Assert(false, "reachability")
	}
}
