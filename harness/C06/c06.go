//go:build verif
// +build verif

package federation

import (
	"bytes"
	"context"
	"encoding/json"
	"errors"
	"sort"
	"strconv"
	"sync"

	"github.com/samsarahq/thunder/graphql"
	"github.com/samsarahq/thunder/internal/zzverif/nondet"
)

// C06: the gateway answers like one combined server.
//
// Real code under the interpreter: convertSchema / ConvertVersionedSchemas /
// mergeSchemaSlice / parseSchema (service introspection results -> merged schema
// with per-field service sets and federated keys), NewPlanner, the flattener
// (normalize.go), planRoot / planObject / planUnion, Executor.Execute / execute /
// runOnService / extractKeys / the stitching loop, DirectExecutorClient,
// MarshalQuery / UnmarshalQuery, Server.Execute / ExecuteRequest (rerunner),
// graphql.PrepareQuery and the graphql executor on every service.
//
// Harness: every service's graphql.Schema and its introspection result are built
// side by side from one description (hand-built types as in C01; the shapes —
// `_federation` on every federated object, `Federation.<service>_<Type>(keys:)`
// returning the objects rebuilt from their keys, `<Type>_InputObject` listing the
// key fields — are those the schema builder's FetchObjectFromKeys produces; the
// consistency entry compares them with a real schema-builder service).

type c06Item struct{ Id int64 }
type c06Sub struct{ Id int64 }
type c06Other struct{ Id int64 }

// c06Thing is the union value: fields named after the member types.
type c06Thing struct {
	Item  *c06Item
	Other *c06Other
}

type c06Data struct {
	items  []int64 // ids returned by Query.items
	first  int64   // id returned by Query.first (0: null)
	things []c06Thing
	a, b   map[int64]int64
	name   map[int64]string
	subOf  map[int64]int64 // item id -> sub id (0: null)
	c      map[int64]int64 // sub id -> value
	touched int            // executions of Mutation.touch
}

// c06Assign: the services that implement each movable field.
type c06Assign map[string][]string

func (as c06Assign) has(field, service string) bool {
	if service == "" {
		return true // the combined reference server implements everything
	}
	for _, s := range as[field] {
		if s == service {
			return true
		}
	}
	return false
}

func c06NN(t *introspectionTypeRef) *introspectionTypeRef {
	return &introspectionTypeRef{Kind: "NON_NULL", OfType: t}
}
func c06L(t *introspectionTypeRef) *introspectionTypeRef {
	return &introspectionTypeRef{Kind: "LIST", OfType: t}
}
func c06R(kind, name string) *introspectionTypeRef {
	return &introspectionTypeRef{Kind: kind, Name: name}
}

// c06OrgKey: the services whose shadow Item is rebuilt from {id, org} instead of
// {id} (their Item_InputObject lists both); when non-nil every service exposes
// Item.org (validateFederationKeys demands it) and the input object of a
// service is named after it (the key sets differ).
var c06OrgKey map[string]bool

type c06Builder struct {
	service string
	objs    map[string]*graphql.Object
	intro   map[string]*introspectionType
}

func (b *c06Builder) object(name string) *graphql.Object {
	if o, ok := b.objs[name]; ok {
		return o
	}
	o := &graphql.Object{Name: name, Fields: map[string]*graphql.Field{}}
	b.objs[name] = o
	b.intro[name] = &introspectionType{Name: name, Kind: "OBJECT", Fields: []introspectionField{}, InputFields: []introspectionInputField{}, PossibleTypes: []*introspectionTypeRef{}, EnumValues: []introspectionEnumValue{}, Interfaces: []*introspectionTypeRef{}}
	return o
}

func c06NoArgs(json interface{}) (interface{}, error) { return nil, nil }

func (b *c06Builder) field(obj, name string, typ graphql.Type, ref *introspectionTypeRef, resolve func(src interface{}) (interface{}, error)) *graphql.Field {
	o := b.object(obj)
	f := &graphql.Field{Type: typ, Args: map[string]graphql.Type{}, ParseArguments: c06NoArgs,
		Resolve: func(ctx context.Context, source, args interface{}, sel *graphql.SelectionSet) (interface{}, error) {
			return resolve(source)
		}}
	o.Fields[name] = f
	it := b.intro[obj]
	it.Fields = append(it.Fields, introspectionField{Name: name, Type: ref, Args: []introspectionInputField{}})
	return f
}

var c06Int = &graphql.Scalar{Type: "int64"}
var c06Str = &graphql.Scalar{Type: "string"}

// federated registers what FetchObjectFromKeys adds for an object with key `id`.
func (b *c06Builder) federated(name string, rebuild func(id int64) interface{}) {
	o := b.object(name)
	idf := b.field(name, "id", &graphql.NonNull{Type: c06Int}, c06NN(c06R("SCALAR", "int64")), func(src interface{}) (interface{}, error) { return c06ID(src), nil })
	o.KeyField = idf
	if b.service == "" {
		return
	}
	b.field(name, "_federation", o, c06R("OBJECT", name), func(src interface{}) (interface{}, error) { return src, nil })
	inputName := name + "_InputObject"
	nkeys := 1
	input := &graphql.InputObject{Name: inputName, InputFields: map[string]graphql.Type{"id": &graphql.NonNull{Type: c06Int}}}
	inFields := []introspectionInputField{{Name: "id", Type: c06NN(c06R("SCALAR", "int64"))}}
	if name == "Item" && c06OrgKey != nil {
		inputName = name + "_" + b.service + "_InputObject"
		input.Name = inputName
		if c06OrgKey[b.service] {
			nkeys = 2
			input.InputFields["org"] = &graphql.NonNull{Type: c06Int}
			inFields = append(inFields, introspectionInputField{Name: "org", Type: c06NN(c06R("SCALAR", "int64"))})
		}
	}
	b.intro[inputName] = &introspectionType{Name: inputName, Kind: "INPUT_OBJECT", Fields: []introspectionField{}, InputFields: inFields, PossibleTypes: []*introspectionTypeRef{}, EnumValues: []introspectionEnumValue{}, Interfaces: []*introspectionTypeRef{}}
	fed := b.object("Federation")
	fname := b.service + "_" + name
	fed.Fields[fname] = &graphql.Field{
		Type: &graphql.NonNull{Type: &graphql.List{Type: &graphql.NonNull{Type: o}}},
		Args: map[string]graphql.Type{"keys": &graphql.NonNull{Type: &graphql.List{Type: input}}},
		ParseArguments: func(js interface{}) (interface{}, error) {
			m, ok := js.(map[string]interface{})
			if !ok {
				return nil, errors.New("keys: not an object")
			}
			list, ok := m["keys"].([]interface{})
			if !ok {
				return nil, errors.New("keys: not a list")
			}
			out := make([]interface{}, 0, len(list))
			for _, k := range list {
				km, ok := k.(map[string]interface{})
				if !ok {
					return nil, errors.New("key: not an object")
				}
				// a service only understands the key fields of its own shadow object
				if len(km) != nkeys {
					return nil, errors.New("key: fields other than this service's keys")
				}
				if nkeys == 2 {
					if _, ok := km["org"]; !ok {
						return nil, errors.New("key: org missing")
					}
				}
				var id int64
				switch n := km["id"].(type) {
				case float64:
					id = int64(n)
				case json.Number:
					v, err := n.Int64()
					if err != nil {
						return nil, err
					}
					id = v
				default:
					return nil, errors.New("key id: not a number")
				}
				out = append(out, rebuild(id))
			}
			return out, nil
		},
		Resolve: func(ctx context.Context, source, args interface{}, sel *graphql.SelectionSet) (interface{}, error) {
			return args, nil
		},
	}
	it := b.intro["Federation"]
	it.Fields = append(it.Fields, introspectionField{Name: fname, Type: c06NN(c06L(c06NN(c06R("OBJECT", name)))),
		Args: []introspectionInputField{{Name: "keys", Type: c06NN(c06L(c06R("INPUT_OBJECT", inputName)))}}})
}

func c06ID(src interface{}) int64 {
	switch s := src.(type) {
	case *c06Item:
		return s.Id
	case *c06Sub:
		return s.Id
	case *c06Other:
		return s.Id
	}
	panic("c06ID")
}

// c06Service builds the schema of one service ("" = the combined server) and
// its introspection result.
func c06Service(service string, as c06Assign, d *c06Data) (*graphql.Schema, *IntrospectionQueryResult) {
	b := &c06Builder{service: service, objs: map[string]*graphql.Object{}, intro: map[string]*introspectionType{}}
	query := b.object("Query")
	b.object("Mutation")
	if service != "" {
		b.object("Federation")
		b.field("Query", "_federation", &graphql.NonNull{Type: b.object("Federation")}, c06NN(c06R("OBJECT", "Federation")), func(src interface{}) (interface{}, error) { return struct{}{}, nil })
	}
	b.federated("Item", func(id int64) interface{} { return &c06Item{Id: id} })
	b.federated("Sub", func(id int64) interface{} { return &c06Sub{Id: id} })
	b.federated("Other", func(id int64) interface{} { return &c06Other{Id: id} })
	item, sub, other := b.object("Item"), b.object("Sub"), b.object("Other")
	intNN, intRef := &graphql.NonNull{Type: c06Int}, c06NN(c06R("SCALAR", "int64"))
	if c06OrgKey != nil {
		b.field("Item", "org", intNN, intRef, func(src interface{}) (interface{}, error) { return 1000 + src.(*c06Item).Id, nil })
	}
	if as.has("Item.a", service) {
		b.field("Item", "a", intNN, intRef, func(src interface{}) (interface{}, error) { return d.a[src.(*c06Item).Id], nil })
	}
	if as.has("Item.b", service) {
		b.field("Item", "b", intNN, intRef, func(src interface{}) (interface{}, error) { return d.b[src.(*c06Item).Id], nil })
	}
	if as.has("Item.name", service) {
		b.field("Item", "name", &graphql.NonNull{Type: c06Str}, c06NN(c06R("SCALAR", "string")), func(src interface{}) (interface{}, error) { return d.name[src.(*c06Item).Id], nil })
	}
	if as.has("Item.sub", service) {
		b.field("Item", "sub", sub, c06R("OBJECT", "Sub"), func(src interface{}) (interface{}, error) {
			if id := d.subOf[src.(*c06Item).Id]; id != 0 {
				return &c06Sub{Id: id}, nil
			}
			return (*c06Sub)(nil), nil
		})
	}
	if as.has("Sub.c", service) {
		b.field("Sub", "c", intNN, intRef, func(src interface{}) (interface{}, error) { return d.c[src.(*c06Sub).Id], nil })
	}
	if as.has("Other.o", service) {
		b.field("Other", "o", intNN, intRef, func(src interface{}) (interface{}, error) { return 100 + src.(*c06Other).Id, nil })
	}
	if as.has("Query.items", service) {
		b.field("Query", "items", &graphql.NonNull{Type: &graphql.List{Type: item}}, c06NN(c06L(c06R("OBJECT", "Item"))), func(src interface{}) (interface{}, error) {
			out := []*c06Item{}
			for _, id := range d.items {
				if id == 0 {
					out = append(out, nil) // a null element
					continue
				}
				out = append(out, &c06Item{Id: id})
			}
			return out, nil
		})
	}
	if as.has("Query.first", service) {
		b.field("Query", "first", item, c06R("OBJECT", "Item"), func(src interface{}) (interface{}, error) {
			if d.first == 0 {
				return (*c06Item)(nil), nil
			}
			return &c06Item{Id: d.first}, nil
		})
	}
	if as.has("Query.things", service) {
		union := &graphql.Union{Name: "Thing", Types: map[string]*graphql.Object{"Item": item, "Other": other}}
		b.intro["Thing"] = &introspectionType{Name: "Thing", Kind: "UNION", Fields: []introspectionField{}, InputFields: []introspectionInputField{},
			PossibleTypes: []*introspectionTypeRef{c06R("OBJECT", "Item"), c06R("OBJECT", "Other")}, EnumValues: []introspectionEnumValue{}, Interfaces: []*introspectionTypeRef{}}
		b.field("Query", "things", &graphql.NonNull{Type: &graphql.List{Type: union}}, c06NN(c06L(c06R("UNION", "Thing"))), func(src interface{}) (interface{}, error) {
			out := []*c06Thing{}
			for i := range d.things {
				t := d.things[i]
				out = append(out, &t)
			}
			return out, nil
		})
	}
	if as.has("Mutation.touch", service) {
		b.field("Mutation", "touch", item, c06R("OBJECT", "Item"), func(src interface{}) (interface{}, error) {
			d.touched++
			return &c06Item{Id: 1}, nil
		})
	}
	for _, n := range []string{"int64", "string"} {
		b.intro[n] = &introspectionType{Name: n, Kind: "SCALAR", Fields: []introspectionField{}, InputFields: []introspectionInputField{}, PossibleTypes: []*introspectionTypeRef{}, EnumValues: []introspectionEnumValue{}, Interfaces: []*introspectionTypeRef{}}
	}
	var names []string
	for n := range b.intro {
		names = append(names, n)
	}
	sort.Strings(names)
	res := &IntrospectionQueryResult{}
	for _, n := range names {
		t := b.intro[n]
		sort.Slice(t.Fields, func(i, j int) bool { return t.Fields[i].Name < t.Fields[j].Name })
		res.Schema.Types = append(res.Schema.Types, *t)
	}
	return &graphql.Schema{Query: query, Mutation: b.object("Mutation")}, res
}

// ---------- the gateway and the reference server

type c06World struct {
	gateway  *Executor
	combined *graphql.Schema
	planner  *Planner
	requests map[string]int // sub-requests received per service
}

type c06Client struct {
	name  string
	inner ExecutorClient
	w     *c06World
}

func (c *c06Client) Execute(ctx context.Context, req *QueryRequest) (*QueryResponse, error) {
	c.w.requests[c.name]++
	return c.inner.Execute(ctx, req)
}

// c06Lean does what DirectExecutorClient + Server.Execute + ExecuteRequest do
// for one sub-request — protobuf round trip of the query, PrepareQuery,
// Execute, JSON — without the rerunner goroutine and its timer (their
// scheduling is immaterial here and is decided by C15 FedCancel and C04).
type c06Lean struct{ srv *Server }

func (c *c06Lean) Execute(ctx context.Context, request *QueryRequest) (*QueryResponse, error) {
	marshaled, err := MarshalQuery(request.Query)
	if err != nil {
		return nil, err
	}
	query, err := UnmarshalQuery(marshaled)
	if err != nil {
		return nil, err
	}
	var schema graphql.Type = c.srv.schema.Query
	if query.Kind == "mutation" {
		schema = c.srv.schema.Mutation
	}
	if err := graphql.PrepareQuery(ctx, schema, query.SelectionSet); err != nil {
		return nil, err
	}
	res, err := c.srv.localExecutor.Execute(ctx, schema, nil, query)
	if err != nil {
		return nil, errors.New("executing query: " + err.Error())
	}
	b, err := json.Marshal(res)
	if err != nil {
		return nil, err
	}
	return &QueryResponse{Result: b}, nil
}

var c06RealClients bool

func c06Setup(services []string, as c06Assign, d *c06Data) *c06World {
	w := &c06World{requests: map[string]int{}}
	execs := map[string]ExecutorClient{}
	schemas := map[string]*IntrospectionQueryResult{}
	for _, svc := range services {
		schema, intro := c06Service(svc, as, d)
		schemas[svc] = intro
		srv := &Server{schema: schema, localExecutor: graphql.NewExecutor(&c15Sched{})}
		var inner ExecutorClient = &c06Lean{srv: srv}
		if c06RealClients {
			inner = &DirectExecutorClient{Client: srv}
		}
		execs[svc] = &c06Client{name: svc, inner: inner, w: w}
	}
	types, err := convertSchema(schemas)
	nondet.Assert(err == nil, "schemas-convert")
	planner, err := NewPlanner(types, nil)
	nondet.Assert(err == nil, "planner-builds")
	w.planner = planner
	w.gateway = &Executor{Executors: execs, syncer: &Syncer{plannerMu: &sync.RWMutex{}, planner: planner}}
	w.combined, _ = c06Service("", as, d)
	return w
}

// c06Canon: a result as the JSON a client receives (decoded generically).
func c06Canon(v interface{}) (interface{}, error) {
	b, err := json.Marshal(v)
	if err != nil {
		return nil, err
	}
	var out interface{}
	dec := json.NewDecoder(bytes.NewReader(b))
	dec.UseNumber()
	if err := dec.Decode(&out); err != nil {
		return nil, err
	}
	return out, nil
}

// reference: the combined server's answer; ok=false if the query is not valid
// against the combined schema (then nothing is demanded of the gateway).
func (w *c06World) reference(text string) (interface{}, bool) {
	q, err := graphql.Parse(text, nil)
	if err != nil {
		return nil, false
	}
	var root graphql.Type = w.combined.Query
	if q.Kind == "mutation" {
		root = w.combined.Mutation
	}
	if err := graphql.PrepareQuery(context.Background(), root, q.SelectionSet); err != nil {
		return nil, false
	}
	v, err := graphql.NewExecutor(&c15Sched{}).Execute(context.Background(), root, nil, q)
	if err != nil {
		return nil, false
	}
	c, err := c06Canon(v)
	return c, err == nil
}

func (w *c06World) viaGateway(text string) (interface{}, error) {
	q, err := graphql.Parse(text, nil)
	if err != nil {
		return nil, err
	}
	v, _, err := w.gateway.Execute(context.Background(), q, nil)
	if err != nil {
		return nil, err
	}
	return c06Canon(v)
}

func c06FixedData() *c06Data {
	return &c06Data{
		items: []int64{1, 2}, first: 1,
		things: []c06Thing{{Item: &c06Item{Id: 2}}, {Other: &c06Other{Id: 5}}, {Item: &c06Item{Id: 1}}},
		a:     map[int64]int64{1: 11, 2: 12}, b: map[int64]int64{1: 21, 2: 22}, name: map[int64]string{1: "one", 2: "two"},
		subOf: map[int64]int64{1: 7}, c: map[int64]int64{7: 70},
	}
}

// ---------- queries

type c06Gen struct {
	used map[string]bool // movable fields the query mentions
	rich bool            // aliases, inline fragments, __typename
}

func (g *c06Gen) subSel(name string, slots int) string {
	out := ""
	for i := 0; i < slots; i++ {
		switch nondet.Choice(name+"."+strconv.Itoa(i), 3) {
		case 1:
			out += " id"
		case 2:
			out += " c"
			g.used["Sub.c"] = true
		}
	}
	if out == "" {
		out = " id"
	}
	return "{" + out + " }"
}

// itemSel: a selection set on Item with up to `slots` entries.
func (g *c06Gen) itemSel(name string, slots int, subSlots int) string {
	out := ""
	opts := 5
	if g.rich {
		opts = 10
	}
	for i := 0; i < slots; i++ {
		p := name + "." + strconv.Itoa(i)
		switch nondet.Choice(p, opts) {
		case 1:
			out += " a"
			g.used["Item.a"] = true
		case 2:
			out += " b"
			g.used["Item.b"] = true
		case 3:
			out += " sub " + g.subSel(p+".sub", subSlots)
			g.used["Item.sub"] = true
		case 4:
			out += " id"
		case 5:
			out += " name"
			g.used["Item.name"] = true
		case 6:
			out += " x: b"
			g.used["Item.b"] = true
		case 7:
			out += " __typename"
		case 8:
			out += " ... on Item { b }"
			g.used["Item.b"] = true
		case 9:
			out += " y: sub " + g.subSel(p+".sub", subSlots)
			g.used["Item.sub"] = true
		}
	}
	if out == "" {
		out = " id"
	}
	return "{" + out + " }"
}

func (g *c06Gen) query(roots []string, slots, subSlots int) string {
	root := roots[nondet.Choice("root", len(roots))]
	g.used["Query."+root] = true
	switch root {
	case "items", "first":
		return "{ " + root + " " + g.itemSel(root, slots, subSlots) + " }"
	case "touch":
		delete(g.used, "Query.touch")
		g.used["Mutation.touch"] = true
		return "mutation { touch " + g.itemSel(root, slots, subSlots) + " }"
	}
	// things: fragments per union member
	out := ""
	if nondet.Choice("things.typename", 2) == 1 {
		out += " __typename"
	}
	if nondet.Choice("things.onItem", 2) == 1 {
		out += " ... on Item " + g.itemSel("things.item", slots, subSlots)
	}
	switch nondet.Choice("things.onOther", 3) {
	case 1:
		out += " ... on Other { o }"
		g.used["Other.o"] = true
	case 2:
		out += " ... on Other { id }"
	}
	if out == "" {
		out = " __typename"
	}
	return "{ things {" + out + " } }"
}

var c06Movable = []string{"Mutation.touch", "Item.a", "Item.b", "Item.name", "Item.sub", "Sub.c", "Other.o", "Query.items", "Query.first", "Query.things"}

// c06Partition: every field the query mentions is implemented by s1, by s2, or
// (if both is allowed) by both; the others by s1.
func c06Partition(used map[string]bool, both bool) c06Assign {
	as := c06Assign{}
	n := 2
	if both {
		n = 3
	}
	for _, f := range c06Movable {
		as[f] = []string{"s1"}
		if !used[f] {
			continue
		}
		switch nondet.Choice("svc."+f, n) {
		case 1:
			as[f] = []string{"s2"}
		case 2:
			as[f] = []string{"s1", "s2"}
		}
	}
	return as
}

// c06ChosenData: the data aspects the query can observe are chosen freely.
func c06ChosenData(used map[string]bool) *c06Data {
	d := c06FixedData()
	if used["Query.first"] && nondet.Choice("first.null", 2) == 1 {
		d.first = 0
	}
	if used["Item.sub"] {
		switch nondet.Choice("subs", 3) { // item 1 and item 2: sub / null
		case 1:
			d.subOf = map[int64]int64{1: 7, 2: 8}
			d.c[8] = 80
		case 2:
			d.subOf = map[int64]int64{}
		}
	}
	if used["Query.items"] {
		switch nondet.Choice("items", 4) {
		case 1:
			d.items = []int64{}
		case 2:
			d.items = []int64{2, 1}
		case 3:
			d.items = []int64{0, 1} // the first element is null
		}
	}
	return d
}

// c06Extra: got equals want except for "__typename" entries want does not have.
func c06Extra(got, want interface{}) bool {
	switch g := got.(type) {
	case map[string]interface{}:
		w, ok := want.(map[string]interface{})
		if !ok {
			return false
		}
		for k, gv := range g {
			wv, has := w[k]
			if !has {
				if k == "__typename" {
					continue
				}
				return false
			}
			if !c06Extra(gv, wv) {
				return false
			}
		}
		for k := range w {
			if _, has := g[k]; !has {
				return false
			}
		}
		return true
	case []interface{}:
		w, ok := want.([]interface{})
		if !ok || len(w) != len(g) {
			return false
		}
		for i := range g {
			if !c06Extra(g[i], w[i]) {
				return false
			}
		}
		return true
	}
	return nondet.DeepEq(got, want)
}

func c06Check(roots []string, slots, subSlots int, rich, both bool) {
	g := &c06Gen{used: map[string]bool{}, rich: rich}
	text := g.query(roots, slots, subSlots)
	as := c06Partition(g.used, both)
	d := c06ChosenData(g.used)
	c06Compare(g, text, as, d)
}

func c06Compare(g *c06Gen, text string, as c06Assign, d *c06Data) {
	w := c06Setup([]string{"s1", "s2"}, as, d)
	want, ok := w.reference(text)
	nondet.Assert(ok, "generated-query-valid")
	if !ok {
		return
	}
	got, err := w.viaGateway(text)
	nondet.Assert(err == nil, "gateway-answers")
	if err != nil {
		return
	}
	if !nondet.DeepEq(got, want) {
		if c06Extra(got, want) {
			// the only difference: "__typename" on union elements the client did not ask for
			nondet.AssertClass(false, "same-json-as-combined", "extra-union-typename")
		} else {
			nondet.Assert(false, "same-json-as-combined")
		}
	} else {
		nondet.Assert(true, "same-json-as-combined")
	}
	if g.used["Mutation.touch"] {
		// once for the reference, once through the gateway
		nondet.Assert(d.touched == 2, "mutation-runs-once")
	}
	if w.requests["s1"] > 0 && w.requests["s2"] > 0 {
		nondet.Cover("two-services")
	}
	nondet.Cover("answered")
}

var c06RepeatOpts = []string{" sub { id }", " sub { c }", " sub { y: c }", " x: sub { id }", " x: sub { c }", " a"}

// c06Repeats: the same root field selected nroot times, each occurrence with
// `slots` entries that repeat the aliases sub / x with different children.
func c06Repeats(maxRoots, slots int, parts int) {
	g := &c06Gen{used: map[string]bool{"Query.items": true, "Item.sub": true, "Sub.c": true, "Item.a": true}}
	nroot := 1 + nondet.Choice("nroot", maxRoots)
	text := "{"
	for r := 0; r < nroot; r++ {
		text += " items {"
		for i := 0; i < slots; i++ {
			text += c06RepeatOpts[nondet.Choice("r"+strconv.Itoa(r)+"."+strconv.Itoa(i), len(c06RepeatOpts))]
		}
		text += " }"
	}
	text += " }"
	as := c06Assign{}
	for _, f := range c06Movable {
		as[f] = []string{"s1"}
	}
	switch nondet.Choice("partition", parts) {
	case 1:
		as["Sub.c"] = []string{"s2"}
	case 2:
		as["Item.sub"] = []string{"s2"}
		as["Item.a"] = []string{"s2"}
	}
	d := c06FixedData()
	d.subOf = map[int64]int64{1: 7, 2: 8}
	d.c[8] = 80
	c06Compare(g, text, as, d)
}

// quick: one root field of each kind, 2 selections per Item, plain fields, each field on s1 or s2
func VerifC06Plain() { c06Check([]string{"items", "first", "things"}, 2, 1, false, false) }

// quick: items / first with 2 entries per Item
func VerifC06Items() { c06Check([]string{"items", "first"}, 2, 1, false, false) }

// quick: a mutation returning an Item whose fields may live on another service
func VerifC06Mutation() { c06Check([]string{"touch"}, 2, 1, false, false) }

// VerifC06KeySets: three services; the owner hops to two services whose shadow
// Items are rebuilt from different key sets ({id, org} and {id}); each service
// rejects key fields that are not its own.
func VerifC06KeySets() {
	c06OrgKey = map[string]bool{"s2": true}
	as := c06Assign{}
	for _, f := range c06Movable {
		as[f] = []string{"s1"}
	}
	as["Item.b"] = []string{"s2"}
	as["Item.name"] = []string{"s3"}
	switch nondet.Choice("third", 3) {
	case 1:
		as["Item.a"] = []string{"s3"}
	case 2:
		as["Item.sub"] = []string{"s3"}
		as["Sub.c"] = []string{"s2"}
	}
	g := &c06Gen{used: map[string]bool{}}
	text := g.query([]string{"items", "first"}, 1, 1)
	text2 := "{ items { b name } }"
	if nondet.Choice("fixed", 2) == 1 {
		text = text2
	}
	d := c06ChosenData(g.used)
	w := c06Setup([]string{"s1", "s2", "s3"}, as, d)
	want, ok := w.reference(text)
	nondet.Assert(ok, "generated-query-valid")
	if !ok {
		return
	}
	got, err := w.viaGateway(text)
	nondet.Assert(err == nil, "gateway-answers")
	if err != nil {
		return
	}
	nondet.Assert(nondet.DeepEq(got, want), "same-json-as-combined")
	if w.requests["s2"] > 0 && w.requests["s3"] > 0 {
		nondet.Cover("two-hops")
	}
	nondet.Cover("answered")
}

// quick: the union root with 1 entry on Item
func VerifC06Things() { c06Check([]string{"things"}, 1, 1, false, false) }

// thorough: aliases, inline fragments, __typename; fields may live on both services
func VerifC06Rich() { c06Check([]string{"items", "things"}, 2, 1, true, false) }

// thorough: fields that live on both services (the planner must prefer the current service)
func VerifC06Both() { c06Check([]string{"items", "first"}, 2, 1, false, true) }

// thorough: the real DirectExecutorClient -> Server.Execute -> ExecuteRequest path (rerunner per sub-request)
func VerifC06RealClients() {
	c06RealClients = true
	c06Check([]string{"items", "things"}, 1, 1, false, false)
}

// VerifC06Refresh: a request runs while the gateway installs a freshly fetched
// schema (what poll does on every tick): same answer, and no unsynchronised
// access to the gateway's state.
func VerifC06Refresh() {
	as := c06Assign{}
	for _, f := range c06Movable {
		as[f] = []string{"s1"}
	}
	as["Item.b"] = []string{"s2"}
	d := c06FixedData()
	w := c06Setup([]string{"s1", "s2"}, as, d)
	text := "{ items { a b } }"
	want, ok := w.reference(text)
	nondet.Assert(ok, "generated-query-valid")
	// the refreshed planner is built from the same service schemas
	fresh := c06Setup([]string{"s1", "s2"}, as, d)
	refreshed := false
	nondet.Go("refresh", func() {
		nondet.Yield()
		w.gateway.setPlanner(fresh.planner, fresh.combined)
		refreshed = true
	})
	got, err := w.viaGateway(text)
	nondet.Quiesce()
	nondet.Assert(refreshed, "refresh-returns")
	nondet.Assert(err == nil, "gateway-answers")
	if err == nil {
		nondet.Assert(nondet.DeepEq(got, want), "same-json-as-combined")
		nondet.Cover("answered")
	}
}

// quick: repeated aliases with different children (one root occurrence with 3 entries, or up to 3 root occurrences with 1 entry)
func VerifC06Repeats3() { c06Repeats(1, 3, 2) }
func VerifC06RootRepeats() { c06Repeats(3, 1, 2) }

// quick: the root field selected once or twice with 2 entries each, all on one service
func VerifC06RootTwice() { c06Repeats(2, 2, 1) }

// thorough: 4 entries; 3 roots x 2 entries; 3 partitions
func VerifC06Repeats4()     { c06Repeats(1, 4, 3) }
func VerifC06RootRepeats2() { c06Repeats(2, 2, 3) }

var _ = strconv.Itoa


func VerifC06Witness() {
	as := c06Assign{"Item.a": {"s1"}, "Item.b": {"s2"}, "Item.name": {"s2"}, "Item.sub": {"s1"}, "Sub.c": {"s2"}, "Other.o": {"s1"}, "Query.items": {"s1"}, "Query.first": {"s2"}, "Query.things": {"s1"}}
	d := c06FixedData()
	d.subOf[2] = 8
	d.c[8] = 80
	w := c06Setup([]string{"s1", "s2"}, as, d)
	text := "{ items { a b sub { c } } }"
	want, ok := w.reference(text)
	got, err := w.viaGateway(text)
	if err != nil {
		panic("gateway: " + err.Error())
	}
	if !ok {
		panic("reference failed")
	}
	if nondet.DeepEq(got, want) && w.requests["s1"] == 1 && w.requests["s2"] >= 1 {
		nondet.Assert(false, "reachability")
	}
}
