//go:build verif
// +build verif

package federation

import (
	"bytes"
	"context"
	"encoding/json"

	"github.com/samsarahq/thunder/graphql"
	"github.com/samsarahq/thunder/graphql/schemabuilder"
	"github.com/samsarahq/thunder/internal/zzverif/nondet"
)

// C06: the gateway (real schema syncer, planner, flattener, executor, direct
// executor clients, federation servers built with the real schema builder)
// answers like one combined server over the same data.

type c06Item struct {
	Id int64
}

type c06Sub struct {
	Id int64
}

type c06Other struct {
	Id int64
}

type c06Thing struct {
	schemabuilder.Union
	*c06Item
	*c06Other
}

type c06Data struct {
	a, b  map[int64]int64
	name  map[int64]string
	subOf map[int64]int64 // item id -> sub id (0: none)
	c     map[int64]int64 // sub id -> value
}

// c06Assign: which services implement each movable field.
type c06Assign map[string][]string

func (as c06Assign) has(field, service string) bool {
	if service == "" {
		return true // the combined reference server implements everything
	}
	for _, s := range as[field] {
		if s == service {
			return true
		}
	}
	return false
}

// c06Build builds the schema of one service ("" = the combined server).
func c06Build(service string, as c06Assign, d *c06Data) *graphql.Schema {
	name := service
	if name == "" {
		name = "combined"
	}
	s := schemabuilder.NewSchemaWithName(name)
	var itemOpts, subOpts, otherOpts []schemabuilder.ObjectOption
	if service != "" {
		itemOpts = append(itemOpts, schemabuilder.FetchObjectFromKeys(func(args struct{ Keys []*c06Item }) []*c06Item { return args.Keys }))
		subOpts = append(subOpts, schemabuilder.FetchObjectFromKeys(func(args struct{ Keys []*c06Sub }) []*c06Sub { return args.Keys }))
		otherOpts = append(otherOpts, schemabuilder.FetchObjectFromKeys(func(args struct{ Keys []*c06Other }) []*c06Other { return args.Keys }))
	}
	item := s.Object("Item", c06Item{}, itemOpts...)
	item.Key("id")
	sub := s.Object("Sub", c06Sub{}, subOpts...)
	sub.Key("id")
	other := s.Object("Other", c06Other{}, otherOpts...)
	other.Key("id")
	q := s.Query()
	s.Mutation()
	if as.has("Item.a", service) {
		item.FieldFunc("a", func(it *c06Item) int64 { return d.a[it.Id] })
	}
	if as.has("Item.b", service) {
		item.FieldFunc("b", func(it *c06Item) int64 { return d.b[it.Id] })
	}
	if as.has("Item.name", service) {
		item.FieldFunc("name", func(it *c06Item) string { return d.name[it.Id] })
	}
	if as.has("Item.sub", service) {
		item.FieldFunc("sub", func(it *c06Item) *c06Sub {
			if id := d.subOf[it.Id]; id != 0 {
				return &c06Sub{Id: id}
			}
			return nil
		})
	}
	if as.has("Sub.c", service) {
		sub.FieldFunc("c", func(su *c06Sub) int64 { return d.c[su.Id] })
	}
	if as.has("Other.o", service) {
		other.FieldFunc("o", func(o *c06Other) int64 { return 100 + o.Id })
	}
	if as.has("Query.items", service) {
		q.FieldFunc("items", func() []*c06Item { return []*c06Item{{Id: 1}, {Id: 2}} })
	}
	if as.has("Query.first", service) {
		q.FieldFunc("first", func() *c06Item { return &c06Item{Id: 1} })
	}
	if as.has("Query.things", service) {
		q.FieldFunc("things", func() []*c06Thing {
			return []*c06Thing{{c06Item: &c06Item{Id: 2}}, {c06Other: &c06Other{Id: 5}}, {c06Item: &c06Item{Id: 1}}}
		})
	}
	return s.MustBuild()
}

type c06World struct {
	gateway  *Executor
	combined *graphql.Schema
	cancel   context.CancelFunc
}

func c06Setup(services []string, as c06Assign, d *c06Data) *c06World {
	ctx, cancel := context.WithCancel(context.Background())
	execs := map[string]ExecutorClient{}
	for _, svc := range services {
		srv, err := NewServer(c06Build(svc, as, d))
		nondet.Assert(err == nil, "harness-server-builds")
		execs[svc] = &DirectExecutorClient{Client: srv}
	}
	gw, err := NewExecutor(ctx, execs, &SchemaSyncerConfig{SchemaSyncer: NewIntrospectionSchemaSyncer(ctx, execs, nil)})
	nondet.Assert(err == nil, "gateway-builds")
	return &c06World{gateway: gw, combined: c06Build("", as, d), cancel: cancel}
}

// c06Canon: a result as the JSON a client receives (decoded generically).
func c06Canon(v interface{}) (interface{}, error) {
	b, err := json.Marshal(v)
	if err != nil {
		return nil, err
	}
	var out interface{}
	dec := json.NewDecoder(bytes.NewReader(b))
	dec.UseNumber()
	if err := dec.Decode(&out); err != nil {
		return nil, err
	}
	return out, nil
}

func (w *c06World) reference(text string) (interface{}, bool) {
	q, err := graphql.Parse(text, nil)
	if err != nil {
		return nil, false
	}
	if err := graphql.PrepareQuery(context.Background(), w.combined.Query, q.SelectionSet); err != nil {
		return nil, false
	}
	v, err := graphql.NewExecutor(&c15Sched{}).Execute(context.Background(), w.combined.Query, nil, q)
	if err != nil {
		return nil, false
	}
	c, err := c06Canon(v)
	return c, err == nil
}

func (w *c06World) viaGateway(text string) (interface{}, error) {
	q, err := graphql.Parse(text, nil)
	if err != nil {
		return nil, err
	}
	v, _, err := w.gateway.Execute(context.Background(), q, nil)
	if err != nil {
		return nil, err
	}
	return c06Canon(v)
}

func c06Fixed() *c06Data {
	return &c06Data{
		a: map[int64]int64{1: 11, 2: 12}, b: map[int64]int64{1: 21, 2: 22}, name: map[int64]string{1: "one", 2: "two"},
		subOf: map[int64]int64{1: 7}, c: map[int64]int64{7: 70},
	}
}

func VerifC06Witness() {
	as := c06Assign{"Item.a": {"s1"}, "Item.b": {"s2"}, "Item.name": {"s2"}, "Item.sub": {"s1"}, "Sub.c": {"s2"}, "Other.o": {"s1"}, "Query.items": {"s1"}, "Query.first": {"s2"}, "Query.things": {"s1"}}
	w := c06Setup([]string{"s1", "s2"}, as, c06Fixed())
	text := "{ items { a b sub { c } } }"
	want, ok := w.reference(text)
	got, err := w.viaGateway(text)
	w.cancel()
	if ok && err == nil && nondet.DeepEq(got, want) {
		nondet.Assert(false, "reachability")
	}
}
