//go:build verif
// +build verif

package federation

import (
	"context"
	"encoding/json"
	"sort"
	"strings"

	"github.com/samsarahq/thunder/graphql"
	"github.com/samsarahq/thunder/graphql/introspection"
	"github.com/samsarahq/thunder/graphql/schemabuilder"
	"github.com/samsarahq/thunder/internal/zzverif/nondet"
)

// Consistency of the C06 harness: a service built with the real schema builder
// (FetchObjectFromKeys, Key, FieldFunc, a union) and asked the real
// introspection query reports exactly the types the harness builds by hand for
// the same field assignment. The Go type names below give the builder the
// names the harness uses (Item_InputObject, Thing).

type Item struct{ Id int64 }
type Sub struct{ Id int64 }
type Other struct{ Id int64 }
type Thing struct {
	schemabuilder.Union
	*Item
	*Other
}

func c06RealService(service string, as c06Assign) *graphql.Schema {
	s := schemabuilder.NewSchemaWithName(service)
	item := s.Object("Item", Item{}, schemabuilder.FetchObjectFromKeys(func(args struct{ Keys []*Item }) []*Item { return args.Keys }))
	item.Key("id")
	sub := s.Object("Sub", Sub{}, schemabuilder.FetchObjectFromKeys(func(args struct{ Keys []*Sub }) []*Sub { return args.Keys }))
	sub.Key("id")
	other := s.Object("Other", Other{}, schemabuilder.FetchObjectFromKeys(func(args struct{ Keys []*Other }) []*Other { return args.Keys }))
	other.Key("id")
	q := s.Query()
	mut := s.Mutation()
	if as.has("Mutation.touch", service) {
		mut.FieldFunc("touch", func() *Item { return nil })
	}
	if as.has("Item.a", service) {
		item.FieldFunc("a", func(it *Item) int64 { return 0 })
	}
	if as.has("Item.b", service) {
		item.FieldFunc("b", func(it *Item) int64 { return 0 })
	}
	if as.has("Item.name", service) {
		item.FieldFunc("name", func(it *Item) string { return "" })
	}
	if as.has("Item.sub", service) {
		item.FieldFunc("sub", func(it *Item) *Sub { return nil })
	}
	if as.has("Sub.c", service) {
		sub.FieldFunc("c", func(su *Sub) int64 { return 0 })
	}
	if as.has("Other.o", service) {
		other.FieldFunc("o", func(o *Other) int64 { return 0 })
	}
	if as.has("Query.items", service) {
		q.FieldFunc("items", func() []*Item { return nil })
	}
	if as.has("Query.first", service) {
		q.FieldFunc("first", func() *Item { return nil })
	}
	if as.has("Query.things", service) {
		q.FieldFunc("things", func() []*Thing { return nil })
	}
	return s.MustBuild()
}

func c06NormTypes(r *IntrospectionQueryResult) map[string]string {
	out := map[string]string{}
	for _, t := range r.Schema.Types {
		if strings.HasPrefix(t.Name, "__") {
			continue
		}
		var parts []string
		for _, f := range t.Fields {
			if strings.HasPrefix(f.Name, "__") {
				continue
			}
			p := "f:" + f.Name + ":" + f.Type.String()
			var args []string
			for _, a := range f.Args {
				args = append(args, a.Name+":"+a.Type.String())
			}
			sort.Strings(args)
			parts = append(parts, p+"("+strings.Join(args, ",")+")")
		}
		for _, f := range t.InputFields {
			parts = append(parts, "i:"+f.Name+":"+f.Type.String())
		}
		for _, p := range t.PossibleTypes {
			parts = append(parts, "p:"+p.String())
		}
		sort.Strings(parts)
		out[t.Name] = t.Kind + " " + strings.Join(parts, " ")
	}
	return out
}

func VerifC06Consistency() {
	as := c06Assign{}
	for _, f := range c06Movable {
		as[f] = []string{"s1"}
	}
	switch nondet.Choice("assignment", 3) {
	case 1:
		as["Item.b"], as["Sub.c"], as["Query.first"] = []string{"s2"}, []string{"s2"}, []string{"s2"}
	case 2:
		as["Item.sub"], as["Query.things"], as["Other.o"], as["Item.a"] = []string{"s2"}, []string{"s2"}, []string{"s2"}, []string{"s1", "s2"}
	}
	for _, svc := range []string{"s1", "s2"} {
		real := c06RealService(svc, as)
		introspection.AddIntrospectionToSchema(real)
		srv := &Server{schema: real, localExecutor: graphql.NewExecutor(&c15Sched{})}
		resp, err := fetchSchema(context.Background(), &c06Lean{srv: srv}, nil)
		nondet.Assert(err == nil, "real-introspection-runs")
		if err != nil {
			return
		}
		var got IntrospectionQueryResult
		nondet.Assert(json.Unmarshal(resp.Result, &got) == nil, "real-introspection-decodes")
		_, hand := c06Service(svc, as, c06FixedData())
		g, h := c06NormTypes(&got), c06NormTypes(hand)
		for name, desc := range h {
			if strings.HasPrefix(desc, "SCALAR") {
				continue
			}
			nondet.Assert(g[name] == desc, "hand-built-type-matches-real")
		}
		for name, desc := range g {
			if strings.HasPrefix(desc, "SCALAR") || strings.HasPrefix(desc, "ENUM") {
				continue
			}
			_, ok := h[name]
			nondet.Assert(ok, "no-real-type-missing")
		}
	}
	nondet.Cover("consistent")
}
