//go:build verif
// +build verif

package sqlgen

// Exported view of the shared sqlgen harness (harness/sql/lib.go) for the
// livesql harness: the in-memory "database" table and the stubbed connection.

type VerifUser = zUser

func VerifDriverReset()              { zReset() }
func VerifTable() []*VerifUser       { return zDrv.table }
func VerifSetTable(t []*VerifUser)   { zDrv.table = t }
func VerifSchema() *Schema           { return zSchema() }
func VerifNewDB(schema *Schema) *DB  { return zNewDB(schema) }
