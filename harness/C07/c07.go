//go:build verif
// +build verif

package livesql

import (
	"context"
	"database/sql"
	"errors"
	"strconv"

	"github.com/samsarahq/thunder/internal/zzverif/nondet"
	"github.com/samsarahq/thunder/reactive"
	"github.com/samsarahq/thunder/sqlgen"
	"github.com/siddontang/go-mysql/replication"
)

// C07: MySQL and its replication stream are replaced by a harness model — an
// in-memory table evaluated with three-valued SQL semantics by the shared
// sqlgen harness, and a change log whose events the harness builds at commit
// time in the typed form go-mysql's row decoder produces. Everything else is
// the real code: LiveDB.Query, reactive.Cache, MakeTester, registerDependency,
// Binlog.RunPollLoop, parseBinlogRowsEvent, parseBinlogRow, the scanners,
// dbTracker.processBinlog, shouldInvalidate, the Rerunner.

type c07Log struct{ errors int }

func (l *c07Log) Debug(msg string, tags ...interface{}) {}
func (l *c07Log) Info(msg string, tags ...interface{})  {}
func (l *c07Log) Warn(msg string, tags ...interface{})  {}
func (l *c07Log) Error(msg string, tags ...interface{}) { l.errors++ }

type c07World struct {
	events  chan *replication.BinlogEvent
	dbCols  []string // the database's column order (information_schema)
	tableID uint64
	nextID  int64
}

var c07W *c07World

// VerifStubGetEvent replaces (*replication.BinlogStreamer).GetEvent: the next
// event of the harness change log; an error once the log is closed.
func VerifStubGetEvent(s *replication.BinlogStreamer, ctx context.Context) (*replication.BinlogEvent, error) {
	ev, ok := <-c07W.events
	if !ok {
		return nil, errors.New("binlog closed")
	}
	return ev, nil
}

// VerifStubFetchColumns replaces fetchColumns (information_schema query).
func VerifStubFetchColumns(conn *sql.DB, database string, table string) ([]string, error) {
	return append([]string{}, c07W.dbCols...), nil
}

func c07Col(r *sqlgen.VerifUser, col string) interface{} {
	switch col {
	case "id":
		return r.Id
	case "name":
		return r.Name
	case "team":
		return r.Team
	case "age":
		if r.Age == nil {
			return nil
		}
		return *r.Age
	case "city":
		return r.City
	}
	return int64(0) // a database column the struct does not know
}

func c07Row(r *sqlgen.VerifUser) []interface{} {
	row := make([]interface{}, 0, len(c07W.dbCols))
	for _, c := range c07W.dbCols {
		row = append(row, c07Col(r, c))
	}
	return row
}

const (
	c07FaultNone = iota
	c07FaultColumns // the row carries one column more than the cached column map expects
	c07FaultType    // a value of the wrong type in an integer column
)

func c07Emit(kind replication.EventType, fault int, rows ...[]interface{}) {
	w := c07W
	tm := &replication.TableMapEvent{Schema: []byte("db"), Table: []byte("users"), TableID: w.tableID}
	if !c07C.tablemap || nondet.Choice("tablemap", 2) == 1 {
		w.events <- &replication.BinlogEvent{Header: &replication.EventHeader{EventType: replication.TABLE_MAP_EVENT}, Event: tm}
	}
	switch fault {
	case c07FaultColumns:
		for i := range rows {
			rows[i] = append(rows[i], int64(0))
		}
	case c07FaultType:
		for i := range rows {
			for j, c := range w.dbCols {
				if c == "team" {
					rows[i][j] = "not a number"
				}
			}
		}
	}
	w.events <- &replication.BinlogEvent{Header: &replication.EventHeader{EventType: kind}, Event: &replication.RowsEvent{Table: tm, Rows: rows}}
}

type c07Cfg struct {
	rows, writes int
	kinds        []int // write kinds (0 insert, 1 update first row, 2 delete first row, 3 update every row in one event, 4 delete every row in one event)
	faults       []int // fault kinds a write's event may have
	layouts      []int
	filters      []int
	strings      bool // name and city vary (otherwise fixed)
	tablemap     bool // table-map events are optional (otherwise always sent)
}

var c07C c07Cfg

func c07NewUser(name string, id int64) *sqlgen.VerifUser {
	u := &sqlgen.VerifUser{Id: id, Name: "a", Team: nondet.Int64(name + ".team"), City: "x"}
	if c07C.strings {
		u.Name = nondet.StringFrom(name+".name", "a", "b")
		u.City = nondet.StringFrom(name+".city", "x", "y")
	}
	if nondet.Choice(name+".hasAge", 2) == 1 {
		v := nondet.Int64(name + ".age")
		u.Age = &v
	}
	return u
}

// c07Write commits one write to the table and appends its change event.
func c07Write(name string) {
	w := c07W
	fault := c07C.faults[nondet.Choice(name+".fault", len(c07C.faults))]
	table := sqlgen.VerifTable()
	kinds := c07C.kinds
	if kinds == nil {
		kinds = []int{0, 1, 2}
	}
	switch kinds[nondet.Choice(name+".kind", len(kinds))] {
	case 3: // one UPDATE statement changing every row: one event with a before/after pair per row
		var rows [][]interface{}
		var next []*sqlgen.VerifUser
		for i, before := range table {
			after := c07NewUser(name+"."+strconv.Itoa(i), before.Id)
			next = append(next, after)
			rows = append(rows, c07Row(before), c07Row(after))
		}
		if len(rows) == 0 {
			return
		}
		sqlgen.VerifSetTable(next)
		c07Emit(replication.UPDATE_ROWS_EVENTv2, fault, rows...)
	case 4: // one DELETE statement removing every row
		var rows [][]interface{}
		for _, before := range table {
			rows = append(rows, c07Row(before))
		}
		if len(rows) == 0 {
			return
		}
		sqlgen.VerifSetTable([]*sqlgen.VerifUser{})
		c07Emit(replication.DELETE_ROWS_EVENTv2, fault, rows...)
	case 0: // insert
		w.nextID++
		u := c07NewUser(name, w.nextID)
		sqlgen.VerifSetTable(append(append([]*sqlgen.VerifUser{}, table...), u))
		c07Emit(replication.WRITE_ROWS_EVENTv2, fault, c07Row(u))
	case 1: // update of the first row (an upsert of an existing key is this too)
		if len(table) == 0 {
			return
		}
		before := table[0]
		after := c07NewUser(name, before.Id)
		sqlgen.VerifSetTable(append([]*sqlgen.VerifUser{after}, table[1:]...))
		c07Emit(replication.UPDATE_ROWS_EVENTv2, fault, c07Row(before), c07Row(after))
	case 2: // delete of the first row
		if len(table) == 0 {
			return
		}
		sqlgen.VerifSetTable(append([]*sqlgen.VerifUser{}, table[1:]...))
		c07Emit(replication.DELETE_ROWS_EVENTv2, fault, c07Row(table[0]))
	}
}

func c07Filter() sqlgen.Filter {
	switch c07C.filters[nondet.Choice("filter", len(c07C.filters))] {
	case 1:
		return sqlgen.Filter{"team": nondet.Int64("f.team")}
	case 2:
		return sqlgen.Filter{"age": (*int64)(nil)}
	case 3:
		v := nondet.Int64("f.age")
		return sqlgen.Filter{"age": &v}
	case 4:
		return sqlgen.Filter{"name": nondet.StringFrom("f.name", "a", "b")}
	case 5:
		return sqlgen.Filter{"team": nondet.Int64("f.team"), "city": nondet.StringFrom("f.city", "x", "y")}
	case 6:
		return sqlgen.Filter{"age": nondet.Int64("f.age")}
	}
	return nil
}

func c07Values(us []*sqlgen.VerifUser) []sqlgen.VerifUser {
	out := make([]sqlgen.VerifUser, 0, len(us))
	for _, u := range us {
		c := *u
		if u.Age != nil {
			v := *u.Age
			c.Age = &v
		}
		out = append(out, c)
	}
	return out
}

func c07Run(cfg c07Cfg) {
	c07C = cfg
	nrows, nwrites := cfg.rows, cfg.writes
	reactive.WriteThenReadDelay = 0
	sqlgen.VerifDriverReset()
	schema := sqlgen.VerifSchema()
	db := sqlgen.VerifNewDB(schema)
	ldb := NewLiveDB(db)
	w := &c07World{events: make(chan *replication.BinlogEvent, 16), tableID: 1}
	c07W = w
	switch cfg.layouts[nondet.Choice("layout", len(cfg.layouts))] {
	case 0:
		w.dbCols = []string{"id", "name", "team", "age", "city"}
	case 1: // database order differs from the struct's, plus a column the struct does not have
		w.dbCols = []string{"city", "extra", "age", "team", "name", "id"}
	case 2: // columns of the same type swapped (a positional decoder would not even notice)
		w.dbCols = []string{"team", "city", "id", "age", "name"}
	}
	var table []*sqlgen.VerifUser
	for i := 0; i < nrows; i++ {
		w.nextID++
		table = append(table, c07NewUser("r"+strconv.Itoa(i), w.nextID))
	}
	sqlgen.VerifSetTable(table)
	logger := &c07Log{}
	b := &Binlog{db: db, tracker: ldb.tracker, database: "db", streamer: &replication.BinlogStreamer{},
		tableVersions: make(map[string]uint64), columnMaps: make(map[string]*columnMap), logger: logger}
	pollReturned := false
	var pollErr error
	nondet.Go("binlog", func() {
		pollErr = b.RunPollLoop()
		pollReturned = true
	})

	filter := c07Filter()
	var held []sqlgen.VerifUser
	runs := 0
	var lastErr error
	rerunner := reactive.NewRerunner(context.Background(), func(ctx context.Context) (interface{}, error) {
		var users []*sqlgen.VerifUser
		err := ldb.Query(ctx, &users, filter, nil)
		runs++
		lastErr = err
		if err != nil {
			return nil, err
		}
		held = c07Values(users)
		return nil, nil
	}, 0, false)

	nondet.Go("writer", func() {
		for i := 0; i < nwrites; i++ {
			nondet.Yield()
			c07Write("w" + strconv.Itoa(i))
		}
	})

	nondet.Quiesce()
	nondet.Assert(lastErr == nil && runs >= 1, "live-query-ran")
	var fresh []*sqlgen.VerifUser
	err := db.Query(context.Background(), &fresh, filter, nil)
	nondet.Assert(err == nil, "direct-query-runs")
	nondet.Assert(nondet.DeepEq(held, c07Values(fresh)), "live-rows-are-database-rows")
	nondet.Cover("settled")
	if logger.errors > 0 {
		nondet.Cover("undecodable-event")
	}

	// shut down: the dependency is released and the poll loop ends
	rerunner.Stop()
	b.mu.Lock()
	b.closed = true
	b.mu.Unlock()
	close(w.events)
	nondet.Quiesce()
	nondet.Assert(pollReturned && pollErr == nil, "poll-loop-ends")
	ldb.tracker.mu.Lock()
	n := len(ldb.tracker.resources)
	ldb.tracker.mu.Unlock()
	nondet.Assert(n == 0, "dependencies-released")
}

var c07AllFilters = []int{0, 1, 2, 3, 4, 5, 6}

// quick: 1 row, 1 write, integer / NULL filters, permuted database columns
func VerifC07OneWrite() {
	c07Run(c07Cfg{rows: 1, writes: 1, faults: []int{c07FaultNone}, layouts: []int{1, 2}, filters: []int{1, 2, 3, 6}})
}

// quick: 1 row, 1 insert or update, filter on the string column / a value on the pointer column
func VerifC07Name() {
	c07Run(c07Cfg{rows: 1, writes: 1, kinds: []int{1}, faults: []int{c07FaultNone}, layouts: []int{0}, filters: []int{4}, strings: true})
}

// thorough: 1 row, 1 write, string / two-column / value-on-pointer-column filters, name and city vary
func VerifC07Strings() {
	c07Run(c07Cfg{rows: 1, writes: 1, faults: []int{c07FaultNone}, layouts: []int{0}, filters: []int{4, 5, 6}, strings: true})
}

// quick: 2 rows, one statement that changes (or deletes) both: one event with several rows
func VerifC07MultiRow() {
	c07Run(c07Cfg{rows: 2, writes: 1, kinds: []int{3, 4}, faults: []int{c07FaultNone}, layouts: []int{0}, filters: []int{1, 3}})
}

// quick: 1 row, 1 write whose event is undecodable
func VerifC07Faulty() {
	c07Run(c07Cfg{rows: 1, writes: 1, faults: []int{c07FaultColumns, c07FaultType}, layouts: []int{0}, filters: []int{0, 1}})
}

// thorough: 1 row, 1 write, all filters, strings vary, both layouts, optional table-map events, faults
func VerifC07OneWriteAll() {
	c07Run(c07Cfg{rows: 1, writes: 1, faults: []int{0}, layouts: []int{0, 1, 2}, filters: c07AllFilters, tablemap: true})
}

// thorough: 2 rows, 2 writes
func VerifC07TwoWrites() {
	c07Run(c07Cfg{rows: 1, writes: 2, kinds: []int{0, 1, 2}, faults: []int{0}, layouts: []int{0}, filters: []int{1, 3}})
}

func VerifC07Witness() {
	reactive.WriteThenReadDelay = 0
	sqlgen.VerifDriverReset()
	schema := sqlgen.VerifSchema()
	db := sqlgen.VerifNewDB(schema)
	ldb := NewLiveDB(db)
	w := &c07World{events: make(chan *replication.BinlogEvent, 16), tableID: 1, dbCols: []string{"id", "name", "team", "age", "city"}}
	c07W = w
	c07C = c07Cfg{}
	u := &sqlgen.VerifUser{Id: 1, Name: "a", Team: 5, City: "x"}
	sqlgen.VerifSetTable([]*sqlgen.VerifUser{u})
	b := &Binlog{db: db, tracker: ldb.tracker, database: "db", streamer: &replication.BinlogStreamer{},
		tableVersions: make(map[string]uint64), columnMaps: make(map[string]*columnMap), logger: &c07Log{}}
	nondet.Go("binlog", func() { b.RunPollLoop() })
	runs := 0
	n := -1
	reactive.NewRerunner(context.Background(), func(ctx context.Context) (interface{}, error) {
		var users []*sqlgen.VerifUser
		err := ldb.Query(ctx, &users, sqlgen.Filter{"team": int64(5)}, nil)
		runs++
		n = len(users)
		return nil, err
	}, 0, false)
	nondet.Quiesce()
	first := n
	sqlgen.VerifSetTable(nil)
	c07Emit(replication.DELETE_ROWS_EVENTv2, c07FaultNone, c07Row(u))
	nondet.Quiesce()
	if first == 1 && runs == 2 && n == 0 {
		nondet.Assert(false, "reachability")
	}
}
