//go:build verif
// +build verif

package reactive

import (
	"context"
	"strconv"
	"time"

	"github.com/samsarahq/thunder/internal/zzverif/nondet"
)

// The world: a control datum (does the root use the cached child this run?) and
// a data datum (read inside the cached child). Each read creates a fresh
// Resource, registers it with the datum's tracker and with the computation,
// then reads; writers change a datum and invalidate its registered resources.
type c08Res struct {
	r        *Resource
	cleanups int
	name     string
}

type c08World struct {
	control    int // even: use the child
	data       int
	ctlRes     []*c08Res
	dataRes    []*c08Res
	all        []*c08Res
	runs       int
	childRuns  int
	maxRuns    int
	lastData   int  // data version embedded in the last successful output (-1: child not used)
	lastCtl    int
	lastOK     bool
	stopped    bool
	useTimer   bool
	twoKeys    bool
	retryOnRun int // this run of the root asks for a retry (RetrySentinelError) after registering its resources
	retryChild int // this run of the cached child does
}

func (w *c08World) newRes(name string) *c08Res {
	cr := &c08Res{r: NewResource(), name: name}
	cr.r.Cleanup(func() {
		cr.cleanups++
		nondet.Assert(cr.cleanups <= 1, "cleanup-le-1")
	})
	w.all = append(w.all, cr)
	return cr
}

func (w *c08World) child(ctx context.Context) (interface{}, error) {
	w.childRuns++
	cr := w.newRes("data")
	w.dataRes = append(w.dataRes, cr)
	AddDependency(ctx, cr.r, nil)
	nondet.Yield()
	v := w.data
	if w.useTimer {
		InvalidateAfter(ctx, time.Hour)
	}
	if w.childRuns == w.retryChild {
		return nil, RetrySentinelError
	}
	return v, nil
}

func (w *c08World) compute(ctx context.Context) (interface{}, error) {
	w.runs++
	nondet.Assert(w.runs <= w.maxRuns, "run-budget")
	if w.runs > w.maxRuns {
		return nil, context.Canceled
	}
	cr := w.newRes("control")
	w.ctlRes = append(w.ctlRes, cr)
	AddDependency(ctx, cr.r, nil)
	nondet.Yield()
	ctl := w.control
	out := -1
	if ctl%2 == 0 {
		v, err := Cache(ctx, "child", w.child)
		if err != nil {
			return nil, err
		}
		out = v.(int)
		if w.twoKeys {
			// a second cached sub-computation sharing nothing but the data datum
			v2, err := Cache(ctx, "child2", w.child)
			if err != nil {
				return nil, err
			}
			if v2.(int) < out {
				out = v2.(int)
			}
		}
	}
	nondet.Yield()
	if w.runs == w.retryOnRun {
		return nil, RetrySentinelError
	}
	w.lastData, w.lastCtl, w.lastOK = out, ctl, true
	return nil, nil
}

func c08Invalidate(list []*c08Res, strobe bool) {
	for _, cr := range append([]*c08Res{}, list...) {
		if strobe {
			cr.r.Strobe()
		} else {
			cr.r.Invalidate()
		}
	}
}

// c08Run: a writer performs a script of writes (control toggles and data
// bumps, chosen step by step), optionally PurgeCache / Stop happen.
type c08Opts struct {
	steps    int   // max writer steps (chosen 1..steps) unless script is set
	script   []int // fixed writer script
	kinds    int   // step kinds available: 2 = {toggle, data}, 3 = + PurgeCache
	maxRuns  int
	timer    bool // InvalidateAfter by choice
	twoKeys  bool // second cached child by choice
	strobe   bool // strobe instead of invalidate by choice
	stop     bool // Stop at any point by choice
	retry    bool // a run of the root or of the cached child asks for a retry, by choice
}

func c08Run(o c08Opts) {
	WriteThenReadDelay = 0
	w := &c08World{maxRuns: o.maxRuns, lastData: -1}
	w.useTimer = o.timer && nondet.Choice("timer", 2) == 1
	w.twoKeys = o.twoKeys && nondet.Choice("twoKeys", 2) == 1
	strobe := o.strobe && nondet.Choice("strobe", 2) == 1
	if o.retry {
		switch nondet.Choice("retry", 3) {
		case 1:
			w.retryOnRun = 1 + nondet.Choice("retryOn", 2)
		case 2:
			w.retryChild = 1 + nondet.Choice("retryChildOn", 2)
		}
	}
	var purgeCtx context.Context
	r := NewRerunner(context.Background(), func(ctx context.Context) (interface{}, error) {
		purgeCtx = ctx
		return w.compute(ctx)
	}, 0, false)
	kinds := o.script
	if kinds == nil {
		nsteps := 1 + nondet.Choice("nsteps", o.steps)
		kinds = make([]int, nsteps)
		for i := range kinds {
			kinds[i] = nondet.Choice("step"+strconv.Itoa(i), o.kinds)
		}
	}
	nondet.Go("writer", func() {
		for _, k := range kinds {
			nondet.Yield()
			switch k {
			case 0:
				w.control++
				c08Invalidate(w.ctlRes, strobe)
			case 1:
				w.data++
				c08Invalidate(w.dataRes, strobe)
			case 2:
				if purgeCtx != nil {
					PurgeCache(purgeCtx)
				}
			}
		}
	})
	stop := o.stop && nondet.Choice("stop", 2) == 1
	if stop {
		nondet.Go("stopper", func() {
			r.Stop()
			w.stopped = true
		})
	}
	nondet.Quiesce()
	if !w.stopped {
		nondet.Assert(w.lastOK, "ran-at-least-once")
		nondet.Assert(w.lastCtl == w.control, "no-stale-version")
		if w.lastCtl%2 == 0 {
			nondet.Assert(w.lastData == w.data, "no-stale-version")
		}
		nondet.Cover("fresh")
		// now stop and let everything settle: every registered resource is cleaned exactly once
		r.Stop()
		nondet.Quiesce()
	}
	for _, cr := range w.all {
		nondet.Assert(cr.cleanups == 1, "cleanup-eq-1-after-stop")
	}
	if w.childRuns >= 2 {
		nondet.Cover("child-recomputed")
	}
	nondet.Cover("settled")
}

// VerifC08Conditional: the cached child is used, dropped, and used again while
// its datum changes in between (control toggle, data bump, control toggle).
func VerifC08Conditional() {
	c08Run(c08Opts{script: []int{0, 1, 0}, maxRuns: 6})
}

// VerifC08StopDuringRun: one data change and a Stop at any point, with and
// without an InvalidateAfter timer: every registered resource is cleaned once.
func VerifC08StopDuringRun() {
	c08Run(c08Opts{script: []int{1}, maxRuns: 5, timer: true, stop: true})
}

// VerifC08Retry: a run of the root or of the cached child asks for a retry after
// it has registered its resources; one data change; Stop by choice.
func VerifC08Retry() {
	c08Run(c08Opts{script: []int{1}, maxRuns: 6, retry: true, stop: true})
}

// VerifC08Two: every writer script of 1-2 steps over {toggle, data}.
func VerifC08Two() {
	c08Run(c08Opts{steps: 2, kinds: 2, maxRuns: 6, strobe: true})
}

// VerifC08Full: scripts of 1-2 steps incl. PurgeCache, timer, strobe or invalidate, Stop.
func VerifC08Full() {
	c08Run(c08Opts{steps: 2, kinds: 3, maxRuns: 8, timer: true, strobe: true, stop: true})
}

func VerifC08Witness() {
	WriteThenReadDelay = 0
	w := &c08World{maxRuns: 5, lastData: -1}
	r := NewRerunner(context.Background(), w.compute, 0, false)
	nondet.Go("writer", func() {
		nondet.Yield()
		w.data++
		c08Invalidate(w.dataRes, false)
	})
	nondet.Quiesce()
	if w.childRuns == 2 {
		nondet.Assert(false, "reachability")
	}
	r.Stop()
}
