//go:build verif
// +build verif

package federation

import (
	"strconv"

	"github.com/samsarahq/thunder/internal/zzverif/nondet"
)

// ---------- type references and the value-acceptance semantics (the oracle)

func c09Leaf(name string) *introspectionTypeRef {
	kinds := []string{"SCALAR", "OBJECT"}
	return &introspectionTypeRef{
		Kind: kinds[nondet.Choice(name+".leafkind", 2)],
		Name: nondet.StringFrom(name+".name", "T", "U"),
	}
}

// c09TypeRef: optional NON_NULL around LIST(...) or a leaf; at most `lists` list levels.
func c09TypeRef(name string, lists int) *introspectionTypeRef {
	var t *introspectionTypeRef
	if lists > 0 && nondet.Choice(name+".list", 2) == 1 {
		t = &introspectionTypeRef{Kind: "LIST", OfType: c09TypeRef(name+".of", lists-1)}
	} else {
		t = c09Leaf(name)
	}
	if nondet.Choice(name+".nonnull", 2) == 1 {
		t = &introspectionTypeRef{Kind: "NON_NULL", OfType: t}
	}
	return t
}

type c09Val struct {
	null   bool // symbolic
	isList bool
	elems  []*c09Val
}

func c09Value(name string, lists int) *c09Val {
	v := &c09Val{null: nondet.Bool(name + ".null")}
	if lists > 0 && nondet.Choice(name+".islist", 2) == 1 {
		v.isList = true
		n := nondet.Choice(name+".len", 3)
		for i := 0; i < n; i++ {
			v.elems = append(v.elems, c09Value(name+"."+strconv.Itoa(i), lists-1))
		}
	}
	return v
}

// c09Admits: does a value of the given shape conform to type t? (leaf names are
// compared separately; this is about list structure and nullability.)
func c09Admits(t *introspectionTypeRef, v *c09Val) bool {
	if t.Kind == "NON_NULL" {
		return nondet.And(nondet.Not(v.null), c09AdmitsNonNull(t.OfType, v))
	}
	return nondet.Or(v.null, c09AdmitsNonNull(t, v))
}

func c09AdmitsNonNull(t *introspectionTypeRef, v *c09Val) bool {
	if t.Kind == "LIST" {
		if !v.isList {
			return false
		}
		ok := true
		for _, e := range v.elems {
			ok = nondet.And(ok, c09Admits(t.OfType, e))
		}
		return ok
	}
	return !v.isList
}

func c09Root(t *introspectionTypeRef) *introspectionTypeRef {
	for t.OfType != nil {
		t = t.OfType
	}
	return t
}

// c09Skeleton: the type with NON_NULL wrappers removed (compatibility class).
func c09SameSkeleton(a, b *introspectionTypeRef) bool {
	if a.Kind == "NON_NULL" {
		a = a.OfType
	}
	if b.Kind == "NON_NULL" {
		b = b.OfType
	}
	if a.Kind != b.Kind {
		return false
	}
	if a.Kind == "LIST" {
		return c09SameSkeleton(a.OfType, b.OfType)
	}
	return a.Name == b.Name
}

// VerifC09TypeRefLattice: for every pair of type references with <= 2 list
// levels and every value shape: input merge admits only what both admit,
// output merge admits whatever either admits; compatible exactly when the
// skeletons agree; order independent.
func c09Lattice(lists int) {
	a := c09TypeRef("a", lists)
	b := c09TypeRef("b", lists)
	isInput := nondet.Choice("isInput", 2) == 1
	m, err := mergeTypeRefs(a, b, isInput)
	m2, err2 := mergeTypeRefs(b, a, isInput)
	nondet.Assert((err == nil) == (err2 == nil), "commutative")
	same := c09SameSkeleton(a, b)
	nondet.Assert((err == nil) == same, "compatible-iff-same-skeleton")
	if err != nil || err2 != nil {
		nondet.Cover("incompatible")
		return
	}
	nondet.Assert(nondet.DeepEq(m, m2), "commutative")
	nondet.Assert(c09SameSkeleton(m, a), "merged-keeps-skeleton")
	v := c09Value("v", lists)
	am, aa, ab := c09Admits(m, v), c09Admits(a, v), c09Admits(b, v)
	if isInput {
		nondet.Assert(nondet.Implies(am, nondet.And(aa, ab)), "input-sound")
		// and not needlessly strict: whatever both accept is accepted
		nondet.Assert(nondet.Implies(nondet.And(aa, ab), am), "input-complete")
		nondet.Cover("input")
	} else {
		nondet.Assert(nondet.Implies(nondet.Or(aa, ab), am), "output-sound")
		// non-null only claimed where every side guarantees it: a value neither admits is not admitted
		nondet.Assert(nondet.Implies(am, nondet.Or(nondet.Or(aa, ab), c09Mixed(a, b, v))), "output-tight")
		nondet.Cover("output")
	}
}

// c09Mixed: the output merge may admit values that mix the two sides'
// nullability at different positions (a null where only a allows it and another
// where only b allows it); such a value conforms to the position-wise join.
func c09Mixed(a, b *introspectionTypeRef, v *c09Val) bool {
	return c09AdmitsJoin(a, b, v)
}

func c09AdmitsJoin(a, b *introspectionTypeRef, v *c09Val) bool {
	an, bn := a.Kind == "NON_NULL", b.Kind == "NON_NULL"
	if an {
		a = a.OfType
	}
	if bn {
		b = b.OfType
	}
	var inner bool
	if a.Kind == "LIST" {
		if !v.isList {
			inner = false
		} else {
			inner = true
			for _, e := range v.elems {
				inner = nondet.And(inner, c09AdmitsJoin(a.OfType, b.OfType, e))
			}
		}
	} else {
		inner = !v.isList
	}
	if an && bn {
		return nondet.And(nondet.Not(v.null), inner)
	}
	return nondet.Or(v.null, inner)
}

func VerifC09TypeRefLattice1() { c09Lattice(1) }
func VerifC09TypeRefLattice2() { c09Lattice(2) }

// ---------- fields / input fields / enum values / possible types: modes

var c09Names = []string{"f", "g", "h"}

// c09SimpleType: T, T!, U or U! (leaf kind fixed; kind mismatches are the
// lattice entries' business).
func c09SimpleType(name string) *introspectionTypeRef {
	t := &introspectionTypeRef{Kind: "SCALAR", Name: nondet.StringFrom(name+".name", "T", "U")}
	if nondet.Choice(name+".nonnull", 2) == 1 {
		t = &introspectionTypeRef{Kind: "NON_NULL", OfType: t}
	}
	return t
}

func c09Mode() MergeMode {
	if nondet.Choice("mode", 2) == 1 {
		return Intersection
	}
	return Union
}

// c09InputFields: <= n input fields with distinct symbolic names and simple types.
func c09InputFields(name string, n int) []introspectionInputField {
	return c09InputFieldsN(name, n, c09Names)
}

func c09InputFieldsN(name string, n int, names []string) []introspectionInputField {
	k := nondet.Choice(name+".n", n+1)
	var out []introspectionInputField
	for i := 0; i < k; i++ {
		f := introspectionInputField{Name: nondet.StringFrom(name+strconv.Itoa(i)+".name", names...), Type: c09SimpleType(name + strconv.Itoa(i) + ".type")}
		for _, prev := range out {
			nondet.Assume(prev.Name != f.Name)
		}
		out = append(out, f)
	}
	return out
}

func c09FindInput(l []introspectionInputField, name string) *introspectionInputField {
	for i := range l {
		if l[i].Name == name {
			return &l[i]
		}
	}
	return nil
}

func VerifC09InputFields()  { c09InputFieldsCheck(2, c09Names[:2]) }
func VerifC09InputFields3() { c09InputFieldsCheck(2, c09Names) }

func c09InputFieldsCheck(n int, names []string) {
	mode := c09Mode()
	a := c09InputFieldsN("a", n, names)
	b := c09InputFieldsN("b", n, names)
	m, err := mergeInputFields(a, b, mode)
	m2, err2 := mergeInputFields(b, a, mode)
	nondet.Assert((err == nil) == (err2 == nil), "commutative")
	// reference verdict
	wantErr := false
	for _, name := range c09Names {
		fa, fb := c09FindInput(a, name), c09FindInput(b, name)
		switch {
		case fa != nil && fb != nil:
			if !c09SameSkeleton(fa.Type, fb.Type) {
				wantErr = true
			}
		case fa != nil:
			// required on one side only: the other side's clients cannot know it
			if fa.Type.Kind == "NON_NULL" {
				wantErr = true
			}
		case fb != nil:
			if fb.Type.Kind == "NON_NULL" {
				wantErr = true
			}
		}
	}
	nondet.Assert((err != nil) == wantErr, "required-singleton-rejected")
	if err != nil || err2 != nil {
		nondet.Cover("input-fields-rejected")
		return
	}
	nondet.Assert(nondet.DeepEq(m, m2), "commutative")
	for _, name := range c09Names {
		fa, fb := c09FindInput(a, name), c09FindInput(b, name)
		fm := c09FindInput(m, name)
		both := fa != nil && fb != nil
		either := fa != nil || fb != nil
		if mode == Intersection {
			nondet.Assert((fm != nil) == both, "intersection-subset")
		} else {
			nondet.Assert((fm != nil) == either, "union-superset")
		}
		if fm != nil && both {
			// required if any side requires it
			req := fa.Type.Kind == "NON_NULL" || fb.Type.Kind == "NON_NULL"
			nondet.Assert((fm.Type.Kind == "NON_NULL") == req, "required-if-any")
		}
	}
	nondet.Cover("input-fields-merged")
}

func c09Fields(name string, n int) []introspectionField {
	k := nondet.Choice(name+".n", n+1)
	var out []introspectionField
	for i := 0; i < k; i++ {
		p := name + strconv.Itoa(i)
		f := introspectionField{Name: nondet.StringFrom(p+".name", c09Names[:2]...), Type: c09SimpleType(p + ".type"), Args: c09InputFieldsN(p+".arg", 1, c09Names[:2])}
		for _, prev := range out {
			nondet.Assume(prev.Name != f.Name)
		}
		out = append(out, f)
	}
	return out
}

func c09FindField(l []introspectionField, name string) *introspectionField {
	for i := range l {
		if l[i].Name == name {
			return &l[i]
		}
	}
	return nil
}

func VerifC09Fields()  { c09FieldsCheck(1) }
func VerifC09Fields2() { c09FieldsCheck(2) }

func c09FieldsCheck(n int) {
	mode := c09Mode()
	a := c09Fields("a", n)
	b := c09Fields("b", n)
	m, err := mergeFields(a, b, mode)
	m2, err2 := mergeFields(b, a, mode)
	nondet.Assert((err == nil) == (err2 == nil), "commutative")
	if err != nil || err2 != nil {
		nondet.Cover("fields-rejected")
		return
	}
	nondet.Assert(nondet.DeepEq(m, m2), "commutative")
	for _, name := range c09Names {
		fa, fb := c09FindField(a, name), c09FindField(b, name)
		fm := c09FindField(m, name)
		both := fa != nil && fb != nil
		either := fa != nil || fb != nil
		if mode == Intersection {
			nondet.Assert((fm != nil) == both, "intersection-subset")
		} else {
			nondet.Assert((fm != nil) == either, "union-superset")
		}
		if fm != nil && both {
			// non-null only if every side guarantees it
			guaranteed := fa.Type.Kind == "NON_NULL" && fb.Type.Kind == "NON_NULL"
			nondet.Assert((fm.Type.Kind == "NON_NULL") == guaranteed, "nonnull-only-if-all")
			// arguments merged with the same mode
			for _, an := range c09Names {
				xa, xb := c09FindInput(fa.Args, an), c09FindInput(fb.Args, an)
				xm := c09FindInput(fm.Args, an)
				if mode == Intersection {
					nondet.Assert((xm != nil) == (xa != nil && xb != nil), "intersection-subset")
				} else {
					nondet.Assert((xm != nil) == (xa != nil || xb != nil), "union-superset")
				}
			}
		}
	}
	nondet.Cover("fields-merged")
}

// ---------- whole schemas: types by name, kinds, enum values, possible types

func c09Type(name string) introspectionType {
	t := introspectionType{Name: nondet.StringFrom(name+".name", "A", "B", "C")}
	switch nondet.Choice(name+".kind", 4) {
	case 0:
		t.Kind = "OBJECT"
		t.Fields = c09Fields(name+".f", 1)
	case 1:
		t.Kind = "ENUM"
		k := nondet.Choice(name+".nvals", 3)
		for i := 0; i < k; i++ {
			v := introspectionEnumValue{Name: nondet.StringFrom(name+".val"+strconv.Itoa(i), "X", "Y")}
			for _, p := range t.EnumValues {
				nondet.Assume(p.Name != v.Name)
			}
			t.EnumValues = append(t.EnumValues, v)
		}
	case 2:
		t.Kind = "UNION"
		k := nondet.Choice(name+".nposs", 3)
		for i := 0; i < k; i++ {
			r := &introspectionTypeRef{Kind: "OBJECT", Name: nondet.StringFrom(name+".poss"+strconv.Itoa(i), "P", "Q")}
			for _, p := range t.PossibleTypes {
				nondet.Assume(p.Name != r.Name)
			}
			t.PossibleTypes = append(t.PossibleTypes, r)
		}
	case 3:
		t.Kind = "INPUT_OBJECT"
		t.InputFields = c09InputFields(name+".in", 1)
	}
	return t
}

func c09Schema(name string, n int) *IntrospectionQueryResult {
	s := &IntrospectionQueryResult{}
	k := nondet.Choice(name+".ntypes", n+1)
	for i := 0; i < k; i++ {
		t := c09Type(name + ".t" + strconv.Itoa(i))
		for _, p := range s.Schema.Types {
			nondet.Assume(p.Name != t.Name)
		}
		s.Schema.Types = append(s.Schema.Types, t)
	}
	return s
}

func c09FindType(s *IntrospectionQueryResult, name string) *introspectionType {
	for i := range s.Schema.Types {
		if s.Schema.Types[i].Name == name {
			return &s.Schema.Types[i]
		}
	}
	return nil
}

func c09HasEnum(t *introspectionType, v string) bool {
	for _, e := range t.EnumValues {
		if e.Name == v {
			return true
		}
	}
	return false
}

func c09HasPoss(t *introspectionType, v string) bool {
	for _, e := range t.PossibleTypes {
		if e.Name == v {
			return true
		}
	}
	return false
}

func c09Schemas(n int) {
	mode := c09Mode()
	a := c09Schema("a", n)
	b := c09Schema("b", n)
	m, err := mergeSchemas(a, b, mode)
	m2, err2 := mergeSchemas(b, a, mode)
	nondet.Assert((err == nil) == (err2 == nil), "commutative")
	if err != nil || err2 != nil {
		nondet.Cover("schemas-rejected")
		return
	}
	nondet.Assert(nondet.DeepEq(m.Schema.Types, m2.Schema.Types), "commutative")
	for _, name := range []string{"A", "B", "C"} {
		ta, tb, tm := c09FindType(a, name), c09FindType(b, name), c09FindType(m, name)
		both := ta != nil && tb != nil
		either := ta != nil || tb != nil
		if mode == Intersection {
			nondet.Assert((tm != nil) == both, "intersection-subset")
		} else {
			nondet.Assert((tm != nil) == either, "union-superset")
		}
		if tm == nil || !both {
			continue
		}
		nondet.Assert(tm.Kind == ta.Kind && tm.Kind == tb.Kind, "kind-kept")
		for _, v := range []string{"X", "Y"} {
			ina, inb, inm := c09HasEnum(ta, v), c09HasEnum(tb, v), c09HasEnum(tm, v)
			if mode == Intersection {
				nondet.Assert(inm == (ina && inb), "intersection-subset")
			} else {
				nondet.Assert(inm == (ina || inb), "union-superset")
			}
		}
		for _, v := range []string{"P", "Q"} {
			ina, inb, inm := c09HasPoss(ta, v), c09HasPoss(tb, v), c09HasPoss(tm, v)
			if mode == Intersection {
				nondet.Assert(inm == (ina && inb), "intersection-subset")
			} else {
				nondet.Assert(inm == (ina || inb), "union-superset")
			}
		}
	}
	nondet.Cover("schemas-merged")
}

func VerifC09Schemas1() { c09Schemas(1) }
func VerifC09Schemas2() { c09Schemas(2) }

// VerifC09ThreeWay: folding three versions is independent of their order.
// c09RequiredSomewhereAbsentElsewhere: some argument or input field is non-null
// on one schema, nullable on a second and absent from the same field / input
// object on a third (the shape of the known three-way finding).
func c09RequiredSomewhereAbsentElsewhere(ss []*IntrospectionQueryResult) bool {
	type slot struct{ typ, field, arg string }
	required, optional, holders := map[slot]bool{}, map[slot]bool{}, map[slot]int{}
	present := map[slot]int{} // schemas that have the field / input object at all
	for _, s := range ss {
		for _, t := range s.Schema.Types {
			for _, f := range t.Fields {
				present[slot{t.Name, f.Name, ""}]++
				for _, a := range f.Args {
					k := slot{t.Name, f.Name, a.Name}
					holders[k]++
					if a.Type != nil && a.Type.Kind == "NON_NULL" {
						required[k] = true
					} else {
						optional[k] = true
					}
				}
			}
			if t.Kind == "INPUT_OBJECT" {
				present[slot{t.Name, "", ""}]++
				for _, a := range t.InputFields {
					k := slot{t.Name, "", a.Name}
					holders[k]++
					if a.Type != nil && a.Type.Kind == "NON_NULL" {
						required[k] = true
					} else {
						optional[k] = true
					}
				}
			}
		}
	}
	for k := range required {
		if optional[k] && holders[k] < present[slot{k.typ, k.field, ""}] {
			return true
		}
	}
	return false
}

func VerifC09ThreeWay() {
	mode := c09Mode()
	s := []*IntrospectionQueryResult{c09Schema("a", 1), c09Schema("b", 1), c09Schema("c", 1)}
	m1, e1 := mergeSchemaSlice([]*IntrospectionQueryResult{s[0], s[1], s[2]}, mode)
	m2, e2 := mergeSchemaSlice([]*IntrospectionQueryResult{s[2], s[0], s[1]}, mode)
	m3, e3 := mergeSchemaSlice([]*IntrospectionQueryResult{s[1], s[2], s[0]}, mode)
	if mode == Intersection {
		// an incompatibility between two versions may be masked when a third
		// version lacks the type: only the outcome when all succeed is compared
		if e1 != nil || e2 != nil || e3 != nil {
			return
		}
	} else {
		class := ""
		if c09RequiredSomewhereAbsentElsewhere(s) {
			class = "required-nullable-absent"
		}
		nondet.AssertClass((e1 == nil) == (e2 == nil) && (e1 == nil) == (e3 == nil), "order-independent", class)
		if e1 != nil || e2 != nil || e3 != nil {
			return
		}
	}
	nondet.Assert(nondet.DeepEq(m1.Schema.Types, m2.Schema.Types), "order-independent")
	nondet.Assert(nondet.DeepEq(m1.Schema.Types, m3.Schema.Types), "order-independent")
	nondet.Cover("three-way")
}

func VerifC09Witness() {
	a := c09TypeRef("a", 1)
	b := c09TypeRef("b", 1)
	m, err := mergeTypeRefs(a, b, true)
	if err == nil && m.Kind == "NON_NULL" && a.Kind != "NON_NULL" {
		nondet.Assert(false, "reachability")
	}
}
