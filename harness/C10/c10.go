//go:build verif
// +build verif

package sqlgen

import (
	"github.com/samsarahq/thunder/batch"
	"context"
	"strconv"
	"strings"

	"github.com/samsarahq/thunder/internal/zzverif/nondet"
)

func c10Table(n int) []*zUser {
	var rows []*zUser
	for i := 0; i < n; i++ {
		p := "row" + strconv.Itoa(i)
		r := &zUser{Id: int64(i + 1), Name: nondet.StringFrom(p+".name", "ann", "ann b"), Team: nondet.Int64(p + ".team"), City: nondet.StringFrom(p+".city", "c", "b c")}
		if nondet.Choice(p+".agenull", 2) == 0 {
			a := nondet.Int64(p + ".age")
			r.Age = &a
		}
		rows = append(rows, r)
	}
	return rows
}

// c10Value: a filter value for an integer column in one of the Go
// representations callers use for the same column value.
func c10IntValue(name string, nullable bool) (interface{}, *int64) {
	return c10IntValueR(name, nullable, nil)
}

func c10IntValueR(name string, nullable bool, c *c10Filter) (interface{}, *int64) {
	v := nondet.Int64(name)
	k := 3
	if nullable {
		k = 4
	}
	switch nondet.Choice(name+".repr", k) {
	case 0:
		return v, &v
	case 1:
		return &v, &v
	case 2:
		// a plain int holding the same number
		nondet.Assume(v >= -(1<<40) && v <= 1<<40)
		if c != nil {
			c.intRepr = true
		}
		return int(v), &v
	}
	if c != nil {
		c.nilVal = true
	}
	return nil, nil
}

type c10Filter struct {
	intRepr bool // an integer value given as plain int
	nilVal  bool // a nil value (IS NULL)
	f       Filter
	hasTeam bool
	team    *int64
	hasName bool
	name    string
	hasAge  bool
	age     *int64 // nil = NULL
	hasCity bool
	city    string
}

func c10MkFilter(name string, shapes int) *c10Filter {
	c := &c10Filter{f: Filter{}}
	switch nondet.Choice(name+".shape", shapes) {
	case 0:
		c.hasTeam = true
	case 1:
		c.hasTeam, c.hasName = true, true
	case 2:
		c.hasAge = true
	case 3:
		c.hasName = true
	case 4:
		// empty filter: all rows
	case 5:
		// two string columns whose values contain the separator characters
		c.hasName, c.hasCity = true, true
	}
	if c.hasTeam {
		v, p := c10IntValueR(name+".team", false, c)
		c.f["team"], c.team = v, p
	}
	if c.hasName {
		c.name = nondet.StringFrom(name+".name", "ann", "ann b")
		c.f["name"] = c.name
	}
	if c.hasCity {
		c.city = nondet.StringFrom(name+".city", "c", "b c")
		c.f["city"] = c.city
	}
	if c.hasAge {
		v, p := c10IntValueR(name+".age", true, c)
		c.f["age"], c.age = v, p
	}
	return c
}

// matches: the reference predicate "column = value" with SQL NULL semantics as
// thunder's unbatched path expresses them (a nil filter value means IS NULL).
func (c *c10Filter) matches(r *zUser) bool {
	if c.hasTeam && r.Team != *c.team {
		return false
	}
	if c.hasName && r.Name != c.name {
		return false
	}
	if c.hasCity && r.City != c.city {
		return false
	}
	if c.hasAge {
		if c.age == nil {
			if r.Age != nil {
				return false
			}
		} else if r.Age == nil || *r.Age != *c.age {
			return false
		}
	}
	return true
}

func c10Has(rows []interface{}, r *zUser) bool {
	for _, x := range rows {
		if x.(*zUser) == r {
			return true
		}
	}
	return false
}

// VerifC10Batch: k filters fetched in one batch: each gets exactly the rows it
// gets on its own (the real unbatched path) and exactly the rows the reference
// predicate selects.
func c10Batch(nrows, k, shapes int) {
	zReset()
	schema := zSchema()
	db := zNewDB(schema)
	zDrv.table = c10Table(nondet.Choice("nrows", nrows+1))
	nf := 1 + nondet.Choice("nfilters", k)
	var filters []*c10Filter
	var items []interface{}
	for i := 0; i < nf; i++ {
		c := c10MkFilter("f"+strconv.Itoa(i), shapes)
		var out []*zUser
		q, err := schema.MakeSelect(&out, c.f, nil)
		nondet.Assert(err == nil, "select-built")
		if err != nil {
			return
		}
		filters = append(filters, c)
		items = append(items, q)
	}
	ctx := context.Background()
	res, err := db.batchFetch.Many(ctx, items)
	nondet.Assert(err == nil, "batch-ok")
	if err != nil {
		return
	}
	nondet.Assert(len(res) == nf, "one-result-per-query")
	// classify the batch for the known-findings file: which input feature is present
	class := ""
	anyInt, anyNil := false, false
	for _, c := range filters {
		anyInt = anyInt || c.intRepr
		anyNil = anyNil || c.nilVal
	}
	if anyInt {
		class += "+filter-value-int-repr"
	}
	if anyNil {
		class += "+filter-value-nil"
	}
	class = strings.TrimPrefix(class, "+")
	for i, c := range filters {
		own, err := db.BaseQuery(ctx, items[i].(*BaseSelectQuery))
		nondet.Assert(err == nil, "unbatched-ok")
		if err != nil {
			return
		}
		got := res[i].([]interface{})
		for _, r := range zDrv.table {
			inOwn := c10Has(own, r)
			nondet.Assert(inOwn == c.matches(r), "unbatched-equals-reference")
			nondet.AssertClass(c10Has(got, r) == inOwn, "same-rows", class)
		}
		nondet.AssertClass(len(got) == len(own), "same-rows", class)
	}
	nondet.Cover("batched")
}

// VerifC10Options: a query issued on a batching context with and without
// options that change the statement (LIMIT): it gets exactly the rows the same
// query gets without batching (options must keep a query out of the batch or
// be honoured by it).
func VerifC10Options() {
	zReset()
	schema := zSchema()
	db := zNewDB(schema)
	zDrv.table = c10Table(1 + nondet.Choice("nrows", 3))
	c := c10MkFilter("f", 3)
	var opts *SelectOptions
	switch nondet.Choice("options", 3) {
	case 1:
		opts = &SelectOptions{Limit: 1}
	case 2:
		opts = &SelectOptions{AllowNoIndex: true}
	}
	var plain, batched []*zUser
	copyOpts := func() *SelectOptions {
		if opts == nil {
			return nil
		}
		o := *opts
		return &o
	}
	err := db.Query(context.Background(), &plain, c.f, copyOpts())
	nondet.Assert(err == nil, "unbatched-ok")
	err = db.Query(batch.WithBatching(context.Background()), &batched, c.f, copyOpts())
	nondet.Assert(err == nil, "batch-ok")
	class := ""
	if c.intRepr {
		class = "filter-value-int-repr"
	}
	if c.nilVal {
		class = strings.TrimPrefix(class+"+filter-value-nil", "+")
	}
	same := len(plain) == len(batched)
	for i := 0; same && i < len(plain); i++ {
		same = plain[i] == batched[i]
	}
	nondet.AssertClass(same, "same-rows-with-options", class)
	nondet.Cover("options")
}

func VerifC10Batch2() { c10Batch(2, 2, 6) }
func VerifC10Batch3() { c10Batch(3, 2, 6) }

// thorough: 3 rows, 1-2 filters over the first 3 column-set shapes
func VerifC10Batch3Narrow() { c10Batch(3, 2, 3) }

func VerifC10Witness() {
	zReset()
	schema := zSchema()
	db := zNewDB(schema)
	zDrv.table = c10Table(2)
	var out []*zUser
	q, _ := schema.MakeSelect(&out, Filter{"name": "ann"}, nil)
	res, err := db.batchFetch.Many(context.Background(), []interface{}{q})
	if err == nil && len(res[0].([]interface{})) == 2 {
		nondet.Assert(false, "reachability")
	}
}
