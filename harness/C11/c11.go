//go:build verif
// +build verif

package schemabuilder

import (
	"context"
	"encoding/base64"
	"reflect"
	"strconv"
	"strings"

	"github.com/samsarahq/thunder/graphql"
	"github.com/samsarahq/thunder/internal/zzverif/nondet"
)

type c11Node struct {
	ID   int64
	Val  int64
	U    uint64
	Name string
	Keep bool
}

// sort key kinds
const (
	c11Int = iota
	c11Uint
	c11String
)

// c11Cursor is the documented cursor: base64 of the key field.
func c11Cursor(id int64) string {
	return base64.StdEncoding.EncodeToString([]byte(strconv.FormatInt(id, 10)))
}

const (
	c11Plain = iota
	c11Expensive
	c11Batch
	c11BatchFallback
)

func c11Key(n *c11Node, kind int) interface{} {
	switch kind {
	case c11Uint:
		return n.U
	case c11String:
		return n.Name
	}
	return n.Val
}

func c11Context(mode int, kind int) *connectionContext {
	sortField := &graphql.Field{
		Resolve: func(ctx context.Context, source, args interface{}, sel *graphql.SelectionSet) (interface{}, error) {
			return c11Key(source.(*c11Node), kind), nil
		},
	}
	keyType := reflect.TypeOf(int64(0))
	switch kind {
	case c11Uint:
		keyType = reflect.TypeOf(uint64(0))
	case c11String:
		keyType = reflect.TypeOf("")
	}
	switch mode {
	case c11Expensive:
		sortField.Expensive = true
	case c11Batch, c11BatchFallback:
		sortField.Batch = true
		use := mode == c11Batch
		sortField.UseBatchFunc = func(context.Context) bool { return use }
		sortField.BatchResolver = func(ctx context.Context, sources []interface{}, args interface{}, sel *graphql.SelectionSet) ([]interface{}, error) {
			out := make([]interface{}, len(sources))
			for i, s := range sources {
				out[i] = c11Key(s.(*c11Node), kind)
			}
			return out, nil
		}
	}
	filterField := &graphql.Field{
		Resolve: func(ctx context.Context, source, args interface{}, sel *graphql.SelectionSet) (interface{}, error) {
			if source.(*c11Node).Keep {
				return "yes", nil
			}
			return "no", nil
		},
	}
	return &connectionContext{
		funcContext:         &funcContext{},
		Key:                 "ID",
		PaginationArgsIndex: -1,
		SortFields:          map[string]*graphql.Field{"val": sortField},
		SortFunctions:       map[string]func([]sortReference, SortOrder){"val": getSort(keyType)},
		FilterTextFields:    map[string]*graphql.Field{"f": filterField},
		FilterFunctions: map[string]func(string, []string) bool{
			"custom": func(text string, tokens []string) bool { return text == "yes" },
		},
		TokenizeSearchFunctions: map[string]func(string) []string{
			"custom": func(s string) []string { return []string{s} },
		},
	}
}

type c11Input struct {
	nodes    []*c11Node
	filter   bool
	sort     bool
	order    int64
	first    *int64
	last     *int64
	after    *string
	before   *string
	sortMode int
	sortKind int
}

func c11Nodes(n int, symbolicFilter bool) []*c11Node {
	nodes := make([]*c11Node, n)
	for i := 0; i < n; i++ {
		nodes[i] = &c11Node{ID: int64(i + 1), Val: nondet.Int64("val" + strconv.Itoa(i)), Keep: true}
		nodes[i].U = uint64(nodes[i].Val)
		if symbolicFilter {
			nodes[i].Keep = nondet.Bool("keep" + strconv.Itoa(i))
		}
	}
	return nodes
}

func c11CursorChoice(name string, n int) *string {
	if nondet.Choice(name+".given", 2) == 0 {
		return nil
	}
	opts := []string{"bm9wZQ=="} // an unknown cursor
	for i := 0; i < n; i++ {
		opts = append(opts, c11Cursor(int64(i+1)))
	}
	s := nondet.StringFrom(name, opts...)
	return &s
}

func c11IntChoice(name string) *int64 {
	if nondet.Choice(name+".given", 2) == 0 {
		return nil
	}
	v := nondet.Int64(name)
	return &v
}

func (in *c11Input) args() PaginationArgs {
	args := PaginationArgs{First: in.first, Last: in.last, After: in.after, Before: in.before}
	if in.filter {
		ft, typ := "q", "custom"
		args.FilterText, args.FilterType = &ft, &typ
	}
	if in.sort {
		by := "val"
		args.SortBy = &by
		o := SortOrder(in.order)
		args.SortOrder = &o
	}
	return args
}

func (in *c11Input) run() (Connection, error) {
	if in.sortKind == c11String {
		for i, n := range in.nodes {
			if n.Name == "" {
				n.Name = nondet.StringFrom("name"+strconv.Itoa(i), "a", "A", "b")
			}
		}
	}
	c := c11Context(in.sortMode, in.sortKind)
	return c.getConnection(context.Background(), []reflect.Value{reflect.ValueOf(in.nodes)}, in.args(), nil)
}

// c11RefList: filtered, stably sorted list (the reference, independent of thunder's code).
func (in *c11Input) refList() []*c11Node {
	var l []*c11Node
	for _, n := range in.nodes {
		if !in.filter || n.Keep {
			l = append(l, n)
		}
	}
	if in.sort {
		asc := in.order == int64(SortOrder_Ascending)
		// stable insertion sort
		for i := 1; i < len(l); i++ {
			for j := i; j > 0; j-- {
				less := in.less(l[j], l[j-1], asc)
				if !less {
					break
				}
				l[j], l[j-1] = l[j-1], l[j]
			}
		}
	}
	return l
}

func (in *c11Input) less(x, y *c11Node, asc bool) bool {
	switch in.sortKind {
	case c11Uint:
		if asc {
			return x.U < y.U
		}
		return x.U > y.U
	case c11String:
		a, b := strings.ToLower(x.Name), strings.ToLower(y.Name)
		if asc {
			return a < b
		}
		return a > b
	}
	if asc {
		return x.Val < y.Val
	}
	return x.Val > y.Val
}

func c11IndexOf(l []*c11Node, cursor string, from int) int {
	for i := from; i < len(l); i++ {
		if c11Cursor(l[i].ID) == cursor {
			return i
		}
	}
	return -1
}

// c11CheckPage: the single-page obligations of the property.
func c11CheckPage(in *c11Input) {
	conn, err := in.run()
	if (in.first != nil && *in.first < 0) || (in.last != nil && *in.last < 0) || (in.first != nil && in.last != nil) {
		if len(in.nodes) > 0 {
			nondet.Assert(err != nil, "bad-args-rejected")
		}
		return
	}
	nondet.Assert(err == nil, "no-error")
	if err != nil {
		return
	}
	l := in.refList()
	if len(in.nodes) == 0 {
		nondet.Assert(len(conn.Edges) == 0, "page-equal")
		return
	}
	nondet.Assert(conn.TotalCount == int64(len(l)), "total-filtered")
	lo, hi := 0, len(l)
	a, b := -1, -1
	if in.after != nil {
		a = c11IndexOf(l, *in.after, 0)
		if a >= 0 {
			lo = a + 1
		}
	}
	if in.before != nil {
		b = c11IndexOf(l, *in.before, lo)
		if b >= 0 {
			hi = b
		}
	}
	page := l[lo:hi]
	next := in.before != nil && b >= 0 && b != len(l)-1
	prev := in.after != nil && a >= 0 && a != 0
	if in.first != nil && int64(len(page)) > *in.first {
		page = page[:int(*in.first)]
		next = true
	}
	if in.last != nil && int64(len(page)) > *in.last {
		page = page[len(page)-int(*in.last):]
		prev = true
	}
	nondet.Assert(len(conn.Edges) == len(page), "page-equal")
	if len(conn.Edges) != len(page) {
		return
	}
	for i := range page {
		nondet.Assert(conn.Edges[i].Node.(*c11Node) == page[i], "page-equal")
		nondet.Assert(conn.Edges[i].Cursor == c11Cursor(page[i].ID), "cursors")
	}
	// "before" naming an element at or before the one "after" names: the
	// statement and the Relay algorithm can be read differently; not asserted.
	degenerate := in.before != nil && in.after != nil && a >= 0 && b < 0 && c11IndexOf(l, *in.before, 0) >= 0
	if !degenerate {
		nondet.Assert(conn.PageInfo.HasNextPage == next, "has-next")
		nondet.Assert(conn.PageInfo.HasPrevPage == prev, "has-prev")
	}
	if len(page) > 0 {
		nondet.Assert(conn.PageInfo.StartCursor == c11Cursor(page[0].ID), "cursors")
		nondet.Assert(conn.PageInfo.EndCursor == c11Cursor(page[len(page)-1].ID), "cursors")
	}
	nondet.Cover("page-checked")
}

func c11Page(maxN int, modes int, symbolicFilter bool) { c11PageK(maxN, modes, symbolicFilter, 1) }

func c11PageK(maxN int, modes int, symbolicFilter bool, kinds int) {
	n := nondet.Choice("n", maxN+1)
	in := &c11Input{nodes: c11Nodes(n, symbolicFilter)}
	in.filter = symbolicFilter && nondet.Choice("filter", 2) == 1
	in.sort = nondet.Choice("sort", 2) == 1
	if in.sort {
		in.order = nondet.Int64("order")
		in.sortMode = nondet.Choice("sortMode", modes)
		in.sortKind = nondet.Choice("sortKind", kinds)
	}
	in.first = c11IntChoice("first")
	in.last = c11IntChoice("last")
	in.after = c11CursorChoice("after", n)
	in.before = c11CursorChoice("before", n)
	c11CheckPage(in)
}

// VerifC11Cursors3: exactly the slicing/flag kernel: <= 3 nodes in list order
// (no sort, no filter), every first/last, every after/before combination.
func VerifC11Cursors3() {
	n := nondet.Choice("n", 4)
	in := &c11Input{nodes: c11Nodes(n, false)}
	in.first = c11IntChoice("first")
	in.last = c11IntChoice("last")
	in.after = c11CursorChoice("after", n)
	in.before = c11CursorChoice("before", n)
	c11CheckPage(in)
}

// VerifC11Page2: <= 2 nodes with sort (all four sort field implementations).
func VerifC11Page2() { c11Page(2, 4, false) }

// VerifC11Page3: lists of <= 3 nodes, plain sort field, every first/last (any
// int64), after/before over all cursors + unknown + absent, symbolic sort
// values and order.
func VerifC11Page3() { c11Page(3, 1, false) }

// VerifC11Page4: <= 4 nodes, all sort field implementations, symbolic filter verdicts.
func VerifC11Page4() { c11Page(4, 4, true) }

// VerifC11PageFilter: <= 3 nodes, filter verdicts symbolic, all sort modes.
func VerifC11PageFilter() { c11Page(3, 4, true) }

// VerifC11SortKinds: <= 3 nodes sorted by an int64, uint64 or string key
// (strings from {"a","A","b"}: ties after case folding), ascending/descending,
// no cursors: the stable-sort clause for every key kind thunder supports
// except floats.
func VerifC11SortKinds() {
	n := nondet.Choice("n", 4)
	in := &c11Input{nodes: c11Nodes(n, false), sort: true}
	in.order = nondet.Int64("order")
	in.sortKind = nondet.Choice("sortKind", 3)
	c11CheckPage(in)
}

// c11Walk: follow endCursor with first=f until hasNextPage is false.
func c11Walk(maxN int, forward bool) {
	n := nondet.Choice("n", maxN+1)
	in := &c11Input{nodes: c11Nodes(n, true)}
	in.filter = nondet.Choice("filter", 2) == 1
	in.sort = nondet.Choice("sort", 2) == 1
	if in.sort {
		in.order = nondet.Int64("order")
	}
	f := int64(1 + nondet.Choice("pagesize", maxN))
	l := in.refList()
	var visited []*c11Node
	var cursor *string
	for page := 0; ; page++ {
		nondet.Assert(page <= n+1, "walk-terminates")
		if page > n+1 {
			return
		}
		if forward {
			in.first, in.after = &f, cursor
		} else {
			in.last, in.before = &f, cursor
		}
		conn, err := in.run()
		nondet.Assert(err == nil, "no-error")
		if err != nil {
			return
		}
		if forward {
			for _, e := range conn.Edges {
				visited = append(visited, e.Node.(*c11Node))
			}
		} else {
			var pg []*c11Node
			for _, e := range conn.Edges {
				pg = append(pg, e.Node.(*c11Node))
			}
			visited = append(pg, visited...)
		}
		more := conn.PageInfo.HasNextPage
		if !forward {
			more = conn.PageInfo.HasPrevPage
		}
		if !more || len(conn.Edges) == 0 {
			break
		}
		c := conn.PageInfo.EndCursor
		if !forward {
			c = conn.PageInfo.StartCursor
		}
		cursor = &c
	}
	nondet.Assert(len(visited) == len(l), "walk-complete")
	if len(visited) == len(l) {
		for i := range l {
			nondet.Assert(visited[i] == l[i], "walk-ordered")
		}
	}
	nondet.Cover("walk-done")
}

func VerifC11WalkForward3()  { c11Walk(3, true) }
func VerifC11WalkBackward3() { c11Walk(3, false) }
func VerifC11WalkForward4()  { c11Walk(4, true) }
func VerifC11WalkBackward4() { c11Walk(4, false) }

func VerifC11Witness() {
	in := &c11Input{nodes: c11Nodes(3, false), sort: true, order: nondet.Int64("order")}
	conn, err := in.run()
	if err == nil && len(conn.Edges) == 3 && conn.Edges[0].Node.(*c11Node).ID == 3 {
		nondet.Assert(false, "reachability")
	}
}
