//go:build verif
// +build verif

package sqlgen

import (
	"context"
	"strconv"
	"strings"
	"sync"

	"github.com/samsarahq/thunder/batch"
	"github.com/samsarahq/thunder/internal/zzverif/nondet"
)

type c12Limits struct {
	team     int64 // shard limit value for column team
	hasName  bool
	name     string
	dyn      int // 0 none, 1 returns nil filter, 2 returns {team: dynTeam}
	dynTeam  int64
	keep     bool // ShouldContinueOnError verdict
}

func c12DB(l *c12Limits) *DB {
	db := zNewDB(zSchema())
	limit := Filter{"team": l.team}
	if l.hasName {
		limit["name"] = l.name
	}
	db, err := db.WithShardLimit(limit)
	nondet.Assert(err == nil, "limit-installed")
	if l.dyn != 0 {
		db, err = db.WithDynamicLimit(DynamicLimit{
			GetLimitFilter: func(ctx context.Context, table string) Filter {
				if l.dyn == 1 {
					return nil
				}
				return Filter{"team": l.dynTeam}
			},
			ShouldContinueOnError: func(err error, table string) bool { return l.keep },
		})
		nondet.Assert(err == nil, "limit-installed")
	}
	return db
}

func c12Limit(dynamic bool) *c12Limits {
	l := &c12Limits{team: nondet.Int64("limit.team")}
	if nondet.Choice("limit.name", 2) == 1 {
		l.hasName = true
		l.name = nondet.StringFrom("limit.nameval", "ann", "bob")
	}
	if dynamic {
		l.dyn = nondet.Choice("dyn", 3)
		if l.dyn == 2 {
			l.dynTeam = nondet.Int64("dyn.team")
		}
		l.keep = nondet.Bool("dyn.keep")
	}
	return l
}

// allowed: does a (team, name) pair comply with the limits (team given etc.)?
func (l *c12Limits) allowed(hasTeam bool, team int64, hasName bool, name string) bool {
	ok := hasTeam && team == l.team
	if l.hasName {
		ok = ok && hasName && name == l.name
	}
	if ok && l.dyn == 2 {
		ok = (hasTeam && team == l.dynTeam) || l.keep
	}
	return ok
}

// c12CheckReads: every SELECT / COUNT that reached the driver only matches rows
// of the shard: for an arbitrary (symbolic) row, WHERE(row) implies the limit
// columns carry the limit values.
func c12CheckReads(l *c12Limits) {
	for i, st := range zDrv.stmts {
		if st.kind != "query" && st.kind != "queryrow" {
			continue
		}
		e, ok := zParseWhere(zWhereOf(st.clause))
		nondet.Assert(ok, "sql-understood")
		nondet.Assert(e != nil, "touch-complies")
		if e == nil {
			continue
		}
		p := "row" + strconv.Itoa(i)
		r := &zUser{Id: nondet.Int64(p + ".id"), Name: nondet.StringFrom(p+".name", "ann", "bob", "cy"), Team: nondet.Int64(p + ".team")}
		if zTruth(e.eval(r, st.args)) {
			nondet.Assert(r.Team == l.team, "touch-complies")
			if l.hasName {
				nondet.Assert(r.Name == l.name, "touch-complies")
			}
			if l.dyn == 2 && !l.keep {
				nondet.Assert(r.Team == l.dynTeam, "touch-complies")
			}
		}
	}
}

func c12Filter(name string) (f Filter, hasTeam bool, team int64, hasName bool, nm string) {
	f = Filter{}
	switch nondet.Choice(name+".shape", 5) {
	case 0:
	case 1:
		team, hasTeam = nondet.Int64(name+".team"), true
	case 2:
		team, hasTeam = nondet.Int64(name+".team"), true
		nm, hasName = nondet.StringFrom(name+".name", "ann", "bob"), true
	case 3:
		nm, hasName = nondet.StringFrom(name+".name", "ann", "bob"), true
	case 4:
		f["id"] = nondet.Int64(name + ".id")
		team, hasTeam = nondet.Int64(name+".team"), true
	}
	if hasTeam {
		f["team"] = team
	}
	if hasName {
		f["name"] = nm
	}
	return
}

// VerifC12Reads: Query / QueryRow / Count on a limited handle, with and without
// a transaction, with any filter.
func c12Reads(dynamic bool) {
	l := c12Limit(dynamic)
	zReset()
	db := c12DB(l)
	ctx := context.Background()
	inTx := nondet.Choice("tx", 2) == 1
	if inTx {
		var err error
		ctx, _, err = db.WithTx(ctx)
		nondet.Assert(err == nil, "tx")
	}
	f, hasTeam, team, hasName, name := c12Filter("f")
	var err error
	// the caller may add its own WHERE text; a top-level OR in it must not widen
	// the statement beyond the filter (and the limit)
	var opts *SelectOptions
	switch nondet.Choice("where", 3) {
	case 1:
		opts = &SelectOptions{Where: "name = ? OR name = ?", Values: []interface{}{"ann", "cy"}}
	case 2:
		opts = &SelectOptions{Where: "id = ?", Values: []interface{}{nondet.Int64("w.id")}}
	}
	switch nondet.Choice("op", 3) {
	case 0:
		var out []*zUser
		err = db.Query(ctx, &out, f, opts)
	case 1:
		var out *zUser
		err = db.QueryRow(ctx, &out, f, opts)
		if err != nil && strings.Contains(err.Error(), "no rows") {
			err = nil
		}
	case 2:
		_, err = db.Count(ctx, &zUser{}, f)
	}
	allowed := l.allowed(hasTeam, team, hasName, name)
	nondet.Assert((err == nil) == allowed, "noncompliant-errors")
	if !allowed {
		for _, st := range zDrv.stmts {
			nondet.Assert(st.kind == "begin", "no-touch-after-reject")
		}
		nondet.Cover("rejected")
	} else {
		nondet.Cover("accepted")
	}
	c12CheckReads(l)
}

func VerifC12Reads()        { c12Reads(false) }
func VerifC12ReadsDynamic() { c12Reads(true) }

func c12Row(name string) *zUser {
	return &zUser{Id: nondet.Int64(name + ".id"), Name: nondet.StringFrom(name+".name", "ann", "bob"), Team: nondet.Int64(name + ".team")}
}

// c12CheckWrites: every INSERT / upsert row and every UPDATE that reached the
// driver carries the limit columns with the limit values; DELETE only with them.
func c12CheckWrites(l *c12Limits) {
	for _, st := range zDrv.stmts {
		if st.kind != "exec" {
			continue
		}
		switch {
		case strings.HasPrefix(st.clause, "INSERT INTO "):
			cols, nrows, ok := zInsertShape(st.clause)
			nondet.Assert(ok && nrows*len(cols) == len(st.args), "sql-understood")
			ti, ni := -1, -1
			for i, c := range cols {
				if c == "team" {
					ti = i
				}
				if c == "name" {
					ni = i
				}
			}
			nondet.Assert(ti >= 0, "touch-complies")
			for r := 0; r < nrows && ti >= 0; r++ {
				nondet.Assert(nondet.DeepEq(st.args[r*len(cols)+ti], l.team), "touch-complies")
				if l.hasName && ni >= 0 {
					nondet.Assert(nondet.DeepEq(st.args[r*len(cols)+ni], l.name), "touch-complies")
				}
				if l.dyn == 2 && !l.keep {
					nondet.Assert(nondet.DeepEq(st.args[r*len(cols)+ti], l.dynTeam), "touch-complies")
				}
			}
		case strings.HasPrefix(st.clause, "UPDATE "):
			i := strings.Index(st.clause, " SET ")
			j := strings.Index(st.clause, " WHERE ")
			nondet.Assert(i > 0 && j > i, "sql-understood")
			sets := strings.Split(st.clause[i+5:j], ", ")
			found := false
			for k, s := range sets {
				if strings.HasPrefix(s, "team = ") {
					found = true
					nondet.Assert(nondet.DeepEq(st.args[k], l.team), "touch-complies")
				}
			}
			if !found {
				// the limit column is part of the primary key: then it must be pinned by the WHERE
				e, ok := zParseWhere(zWhereOf(st.clause))
				nondet.Assert(ok && e != nil, "touch-complies")
				if e != nil {
					r := &zUser{Id: nondet.Int64("upd.id"), Name: nondet.StringFrom("upd.name", "ann", "bob", "cy"), Team: nondet.Int64("upd.team")}
					if zTruth(e.eval(r, st.args[len(sets):])) {
						nondet.Assert(r.Team == l.team, "touch-complies")
					}
				}
			}
			if l.hasName {
				nameSet := false
				for k, s := range sets {
					if strings.HasPrefix(s, "name = ") {
						nameSet = true
						nondet.Assert(nondet.DeepEq(st.args[k], l.name), "touch-complies")
					}
				}
				nondet.Assert(nameSet, "touch-complies")
			}
		case strings.HasPrefix(st.clause, "DELETE "):
			e, ok := zParseWhere(zWhereOf(st.clause))
			nondet.Assert(ok && e != nil, "touch-complies")
			if e != nil {
				r := &zUser{Id: nondet.Int64("del.id"), Name: nondet.StringFrom("del.name", "ann", "bob", "cy"), Team: nondet.Int64("del.team")}
				if zTruth(e.eval(r, st.args)) {
					nondet.Assert(r.Team == l.team, "touch-complies")
					if l.hasName {
						nondet.Assert(r.Name == l.name, "touch-complies")
					}
				}
			}
		default:
			nondet.Assert(false, "sql-understood")
		}
	}
}

// VerifC12Writes: InsertRow / UpsertRow / UpdateRow / DeleteRow.
func c12Writes(dynamic bool) {
	l := c12Limit(dynamic)
	zReset()
	db := c12DB(l)
	ctx := context.Background()
	if nondet.Choice("tx", 2) == 1 {
		var err error
		ctx, _, err = db.WithTx(ctx)
		nondet.Assert(err == nil, "tx")
	}
	row := c12Row("row")
	var err error
	op := nondet.Choice("op", 4)
	switch op {
	case 0:
		_, err = db.InsertRow(ctx, row)
	case 1:
		_, err = db.UpsertRow(ctx, row)
	case 2:
		err = db.UpdateRow(ctx, row)
	case 3:
		err = db.DeleteRow(ctx, row)
	}
	allowed := l.allowed(true, row.Team, true, row.Name)
	if op == 3 {
		allowed = false // the limit columns are not part of the primary key
	}
	nondet.Assert((err == nil) == allowed, "noncompliant-errors")
	if !allowed {
		for _, st := range zDrv.stmts {
			nondet.Assert(st.kind == "begin", "no-touch-after-reject")
		}
		nondet.Cover("rejected")
	} else {
		nondet.Cover("accepted")
	}
	c12CheckWrites(l)
}

// c12Member: a table whose primary key contains one limit column (team) but
// not the other (name): DELETE and UPDATE statements carry only some of the
// limit columns.
type c12Member struct {
	Team int64 `sql:",primary"`
	Id   int64 `sql:",primary"`
	Name string
}

// VerifC12WritesComposite: DeleteRow / UpdateRow / InsertRow on the composite-key
// table under a one- or two-column limit: a statement that lacks any limit
// column is refused, whatever other limit columns it does carry.
func VerifC12WritesComposite() {
	l := c12Limit(false)
	zReset()
	schema := zSchema()
	schema.MustRegisterType("members", UniqueId, c12Member{})
	db, err := zNewDB(schema).WithShardLimit(func() Filter {
		f := Filter{"team": l.team}
		if l.hasName {
			f["name"] = l.name
		}
		return f
	}())
	nondet.Assert(err == nil, "limit-installed")
	ctx := context.Background()
	row := &c12Member{Team: nondet.Int64("row.team"), Id: nondet.Int64("row.id"), Name: nondet.StringFrom("row.name", "ann", "bob")}
	op := nondet.Choice("op", 3)
	switch op {
	case 0:
		err = db.DeleteRow(ctx, row)
	case 1:
		err = db.UpdateRow(ctx, row)
	case 2:
		_, err = db.InsertRow(ctx, row)
	}
	allowed := l.allowed(true, row.Team, op != 0, row.Name)
	nondet.Assert((err == nil) == allowed, "noncompliant-errors")
	if !allowed {
		nondet.Assert(len(zDrv.stmts) == 0, "no-touch-after-reject")
		nondet.Cover("rejected")
	} else {
		nondet.Cover("accepted")
	}
	c12CheckWrites(l)
}

func VerifC12Writes()        { c12Writes(false) }
func VerifC12WritesDynamic() { c12Writes(true) }

// VerifC12Bulk: InsertRows / UpsertRows with <= 3 rows and any chunk size >= 1.
func VerifC12Bulk() {
	l := c12Limit(false)
	zReset()
	db := c12DB(l)
	ctx := context.Background()
	n := nondet.Choice("n", 4)
	var rows []*zUser
	allAllowed := true
	for i := 0; i < n; i++ {
		r := c12Row("row" + strconv.Itoa(i))
		rows = append(rows, r)
		allAllowed = nondet.And(allAllowed, l.allowed(true, r.Team, true, r.Name))
	}
	chunk := nondet.Int("chunk")
	nondet.Assume(chunk >= 1)
	var err error
	if nondet.Choice("op", 2) == 0 {
		err = db.InsertRows(ctx, rows, chunk)
	} else {
		err = db.UpsertRows(ctx, rows, chunk)
	}
	nondet.Assert((err == nil) == allAllowed, "noncompliant-errors")
	committed := false
	for _, st := range zDrv.stmts {
		if st.kind == "commit" {
			committed = true
		}
	}
	if !allAllowed {
		nondet.Assert(!committed, "no-commit-after-reject")
		nondet.Cover("rejected")
	} else {
		nondet.Cover("accepted")
	}
	// whatever reached the driver (earlier chunks of a later-rejected call run
	// inside the transaction that is then rolled back) must comply row by row
	c12CheckWrites(l)
}

// VerifC12Batched: reads on a batching context go through batch.Func.Invoke and
// the combined SELECT; the restriction must hold there too.
func VerifC12Batched() {
	l := c12Limit(false)
	zReset()
	db := c12DB(l)
	ctx := batch.WithBatching(context.Background())
	f, hasTeam, team, hasName, name := c12Filter("f")
	var out []*zUser
	err := db.Query(ctx, &out, f, nil)
	allowed := l.allowed(hasTeam, team, hasName, name)
	nondet.Assert((err == nil) == allowed, "noncompliant-errors")
	if !allowed {
		nondet.Assert(len(zDrv.stmts) == 0, "no-touch-after-reject")
		nondet.Cover("rejected")
	} else {
		nondet.Assert(len(zDrv.stmts) == 1, "batched-select-issued")
		nondet.Cover("accepted")
	}
	c12CheckReads(l)
}

// VerifC12Batched2: two concurrent reads on one batching context: whether the
// batch function combines them or not, each call errs iff its own filter does
// not comply, a rejected call contributes nothing, and every SELECT that reaches
// the driver (the combined one included) only matches rows of the shard.
func VerifC12Batched2() {
	l := c12Limit(false)
	zReset()
	db := c12DB(l)
	ctx := batch.WithBatching(context.Background())
	var wg sync.WaitGroup
	var errs [2]error
	var allowed [2]bool
	nAllowed := 0
	for i := 0; i < 2; i++ {
		f, hasTeam, team, hasName, name := c12Filter("f" + strconv.Itoa(i))
		allowed[i] = l.allowed(hasTeam, team, hasName, name)
		if allowed[i] {
			nAllowed++
		}
		wg.Add(1)
		go func(i int, f Filter) {
			defer wg.Done()
			var out []*zUser
			errs[i] = db.Query(ctx, &out, f, nil)
		}(i, f)
	}
	wg.Wait()
	for i := 0; i < 2; i++ {
		nondet.Assert((errs[i] == nil) == allowed[i], "noncompliant-errors")
	}
	if nAllowed == 0 {
		nondet.Assert(len(zDrv.stmts) == 0, "no-touch-after-reject")
		nondet.Cover("rejected")
	} else {
		nondet.Assert(len(zDrv.stmts) >= 1 && len(zDrv.stmts) <= nAllowed, "batched-select-issued")
		if nAllowed == 2 && len(zDrv.stmts) == 1 {
			nondet.Cover("combined")
		}
		nondet.Cover("accepted")
	}
	c12CheckReads(l)
}

func VerifC12Witness() {
	l := &c12Limits{team: 7}
	zReset()
	db := c12DB(l)
	var out []*zUser
	err := db.Query(context.Background(), &out, Filter{"team": int64(7)}, nil)
	if err == nil && len(zDrv.stmts) == 1 {
		nondet.Assert(false, "reachability")
	}
}
