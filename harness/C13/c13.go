//go:build verif
// +build verif

package sqlgen

import (
	"database/sql"
	"database/sql/driver"
	"errors"
	"time"

	"github.com/samsarahq/thunder/internal/zzverif/nondet"
)

type c13Named int32
type c13NamedBool bool
type c13NamedStr string

type c13Row struct {
	Id   int64 `sql:",primary"`
	I8   int8
	I16  int16
	I32  int32
	I    int
	U8   uint8
	U16  uint16
	U32  uint32
	U64  uint64
	B    bool
	S    string
	N    c13Named
	NB   c13NamedBool
	NS   c13NamedStr
	P    *int64
	P32  *int32
	PB   *bool
	PS   *string
	Z    int64  `sql:",implicitnull"`
	ZS   string `sql:",implicitnull"`
	Blob []byte
}

// ---- stubs for database/sql's Null* scanners (their convertAssign is
// reflection over database/sql internals): the typed source representations
// the driver produces for these column kinds.

func VerifStubNullInt64Scan(n *sql.NullInt64, value interface{}) error {
	switch v := value.(type) {
	case nil:
		n.Int64, n.Valid = 0, false
	case int64:
		n.Int64, n.Valid = v, true
	case int32:
		n.Int64, n.Valid = int64(v), true
	case int16:
		n.Int64, n.Valid = int64(v), true
	case int8:
		n.Int64, n.Valid = int64(v), true
	case int:
		n.Int64, n.Valid = int64(v), true
	default:
		nondet.Assert(false, "int-source-representation-in-scope")
	}
	return nil
}

func VerifStubNullBoolScan(n *sql.NullBool, value interface{}) error {
	switch v := value.(type) {
	case nil:
		n.Bool, n.Valid = false, false
	case bool:
		n.Bool, n.Valid = v, true
	case int64:
		n.Bool, n.Valid = v != 0, true
	case int8:
		n.Bool, n.Valid = v != 0, true
	default:
		nondet.Assert(false, "bool-source-representation-in-scope")
	}
	return nil
}

func VerifStubNullStringScan(n *sql.NullString, value interface{}) error {
	switch v := value.(type) {
	case nil:
		n.String, n.Valid = "", false
	case string:
		n.String, n.Valid = v, true
	case []byte:
		n.String, n.Valid = string(v), true
	default:
		nondet.Assert(false, "string-source-representation-in-scope")
	}
	return nil
}

func VerifStubNullFloat64Scan(n *sql.NullFloat64, value interface{}) error {
	switch v := value.(type) {
	case nil:
		n.Float64, n.Valid = 0, false
	case float64:
		n.Float64, n.Valid = v, true
	default:
		nondet.Assert(false, "float-source-representation-in-scope")
	}
	return nil
}

func c13Schema() *Schema {
	s := NewSchema()
	s.MustRegisterType("rows", UniqueId, c13Row{})
	return s
}

func C13MkRow() *c13Row {
	x := &c13Row{
		Id: nondet.Int64("id"), I8: nondet.Int8("i8"), I16: nondet.Int16("i16"), I32: nondet.Int32("i32"), I: nondet.Int("i"),
		U8: nondet.Uint8("u8"), U16: nondet.Uint16("u16"), U32: nondet.Uint32("u32"), U64: nondet.Uint64("u64"),
		B: nondet.Bool("b"), S: nondet.StringFrom("s", "", "x", "yy"),
		N: c13Named(nondet.Int32("n")), NB: c13NamedBool(nondet.Bool("nb")), NS: c13NamedStr(nondet.StringFrom("ns", "", "q")),
		Z: nondet.Int64("z"), ZS: nondet.StringFrom("zs", "", "w"),
	}
	if nondet.Choice("p", 2) == 1 {
		v := nondet.Int64("pv")
		x.P = &v
	}
	if nondet.Choice("p32", 2) == 1 {
		v := nondet.Int32("p32v")
		x.P32 = &v
	}
	if nondet.Choice("pb", 2) == 1 {
		v := nondet.Bool("pbv")
		x.PB = &v
	}
	if nondet.Choice("ps", 2) == 1 {
		v := nondet.StringFrom("psv", "", "r")
		x.PS = &v
	}
	switch nondet.Choice("blob", 3) {
	case 1:
		x.Blob = []byte{}
	case 2:
		x.Blob = []byte{nondet.Uint8("blob0"), nondet.Uint8("blob1")}
	}
	return x
}

// VerifC13RoundTrip: BuildStruct(UnbuildStruct(x)) == x for every value of the
// harness struct (full-width symbolic integers, bools, string tokens, named
// types, pointer/NULL combinations, implicit-null columns, nil/empty/non-empty
// blobs), with query-result source representations.
func VerifC13RoundTrip() {
	s := c13Schema()
	x := C13MkRow()
	vals, err := s.UnbuildStruct("rows", x)
	nondet.Assert(err == nil, "unbuild-ok")
	if err != nil {
		return
	}
	row := make([]driver.Value, len(vals))
	for i, v := range vals {
		row[i] = v
		// every value handed to the driver is a valid driver value
		switch v.(type) {
		case nil, int64, float64, bool, []byte, string:
		default:
			nondet.Assert(false, "driver-value-kind")
		}
	}
	back, err := s.BuildStruct("rows", row)
	nondet.Assert(err == nil, "build-ok")
	if err != nil {
		return
	}
	y, ok := back.(*c13Row)
	nondet.Assert(ok, "build-type")
	if !ok {
		return
	}
	nondet.Assert(nondet.DeepEq(y, x), "struct-equal")
	nondet.Cover("round-trip")
}

// VerifC13TesterReflexive: a filter made from a row's own column values
// matches that row; changing one integer column makes it fail.
func VerifC13TesterReflexive() {
	s := c13Schema()
	x := C13MkRow()
	f := Filter{"id": x.Id, "i8": x.I8, "u64": x.U64, "b": x.B, "s": x.S, "n": x.N, "p": x.P, "p_b": x.PB, "z": x.Z, "u32": x.U32}
	t, err := s.MakeTester("rows", f)
	nondet.Assert(err == nil, "tester-built")
	if err != nil {
		return
	}
	nondet.Assert(t.Test(x), "own-filter-matches")
	// pointer vs value representation of the same column value
	f2 := Filter{"i16": &x.I16, "p32": x.P32}
	t2, err := s.MakeTester("rows", f2)
	nondet.Assert(err == nil, "tester-built")
	if err == nil {
		nondet.Assert(t2.Test(x), "own-filter-matches")
	}
	// a different value does not match
	other := nondet.Int32("other")
	t3, err := s.MakeTester("rows", Filter{"i32": other})
	nondet.Assert(err == nil, "tester-built")
	if err == nil {
		nondet.Assert(t3.Test(x) == (other == x.I32), "filter-exact")
	}
	nondet.Cover("tester")
}

// ---- JSON-tagged columns

type c13Settings struct {
	Level int64  `json:"level"`
	Name  string `json:"name"`
}

type c13JRow struct {
	Id       int64          `sql:",primary"`
	Settings *c13Settings   `sql:",json"`
	ByValue  c13Settings    `sql:",json"`
	List     []int64        `sql:",json"`
}

// VerifC13JSONColumns: columns stored as JSON text: a nil pointer / nil slice
// stays nil (SQL NULL), a non-nil value comes back equal, whichever form
// (string or []byte) the driver hands the text back in.
func VerifC13JSONColumns() {
	s := NewSchema()
	s.MustRegisterType("jrows", UniqueId, c13JRow{})
	x := &c13JRow{Id: nondet.Int64("id"), ByValue: c13Settings{Level: nondet.Int64("bv"), Name: "v"}}
	if nondet.Choice("settings", 2) == 1 {
		x.Settings = &c13Settings{Level: nondet.Int64("lv"), Name: nondet.StringFrom("nm", "", "n")}
	}
	switch nondet.Choice("list", 3) {
	case 1:
		x.List = []int64{}
	case 2:
		x.List = []int64{nondet.Int64("l0")}
	}
	vals, err := s.UnbuildStruct("jrows", x)
	nondet.Assert(err == nil, "unbuild-ok")
	if err != nil {
		return
	}
	asString := nondet.Choice("source", 2) == 1
	row := make([]driver.Value, len(vals))
	for i, v := range vals {
		row[i] = v
		if b, ok := v.([]byte); ok && asString {
			row[i] = string(b)
		}
	}
	nondet.Assert((row[1] == nil) == (x.Settings == nil), "nil-is-sql-null")
	back, err := s.BuildStruct("jrows", row)
	nondet.Assert(err == nil, "build-ok")
	if err != nil {
		return
	}
	y := back.(*c13JRow)
	nondet.Assert((y.Settings == nil) == (x.Settings == nil), "nil-pointer-kept")
	if x.Settings != nil && y.Settings != nil {
		nondet.Assert(*y.Settings == *x.Settings, "struct-equal")
	}
	nondet.Assert(y.ByValue == x.ByValue && y.Id == x.Id, "struct-equal")
	nondet.Assert(len(y.List) == len(x.List), "struct-equal")
	if len(x.List) == 1 && len(y.List) == 1 {
		nondet.Assert(y.List[0] == x.List[0], "struct-equal")
	}
	nondet.Cover("json-round-trip")
}

func VerifC13Witness() {
	s := c13Schema()
	x := C13MkRow()
	vals, err := s.UnbuildStruct("rows", x)
	if err == nil && len(vals) == 21 {
		nondet.Assert(false, "reachability")
	}
}

// ---- columns outside the 21-column struct: floats, time, string/binary tags

type c13Text struct{ A, B byte }

func (t c13Text) MarshalText() ([]byte, error) { return []byte{'t', t.A, t.B}, nil }
func (t *c13Text) UnmarshalText(b []byte) error {
	if len(b) != 3 || b[0] != 't' {
		return errors.New("bad text")
	}
	t.A, t.B = b[1], b[2]
	return nil
}

type c13Bin struct{ X uint8 }

func (t c13Bin) MarshalBinary() ([]byte, error) { return []byte{'b', t.X}, nil }
func (t *c13Bin) UnmarshalBinary(b []byte) error {
	if len(b) != 2 || b[0] != 'b' {
		return errors.New("bad binary")
	}
	t.X = b[1]
	return nil
}

type c13XRow struct {
	Id   int64 `sql:",primary"`
	F64  float64
	F32  float32
	PF   *float64
	ZF   float64 `sql:",implicitnull"`
	T    time.Time
	PT   *time.Time
	Txt  c13Text  `sql:",string"`
	PTxt *c13Text `sql:",string"`
	Bin  c13Bin   `sql:",binary"`
	PBin *c13Bin  `sql:",binary"`
}

// VerifC13Extras: the column kinds the 21-column struct leaves out: float64 /
// float32 / *float64 / implicit-null float (enumerated values, exact in both
// widths), time.Time and *time.Time (epoch, a 2023 instant, the zero time;
// handed back as time.Time, the parseTime=true driver form), string-tagged and
// binary-tagged marshaler types by value and by pointer with a symbolic
// payload byte, text handed back as []byte or string.
func VerifC13Extras() {
	s := NewSchema()
	s.MustRegisterType("xrows", UniqueId, c13XRow{})
	fl := []float64{0, 1.5, -2.25, 3e10}
	tm := []time.Time{time.Unix(0, 0).UTC(), time.Unix(1700000000, 0).UTC(), time.Time{}}
	v := nondet.Choice("variant", 6)
	x := &c13XRow{
		Id:  nondet.Int64("id"),
		F64: fl[v%4],
		F32: float32(fl[(v+1)%3]),
		ZF:  fl[v%2],
		T:   tm[v%3],
		Txt: c13Text{byte('a' + v), 'j'},
		Bin: c13Bin{byte(v * 50)},
	}
	if nondet.Choice("ptrs", 2) == 1 {
		f := fl[(v+2)%4]
		x.PF = &f
		t := tm[(v+1)%3]
		x.PT = &t
		x.PTxt = &c13Text{byte('A' + v), 'k'}
		x.PBin = &c13Bin{byte(v)}
	}
	vals, err := s.UnbuildStruct("xrows", x)
	nondet.Assert(err == nil, "unbuild-ok")
	if err != nil {
		return
	}
	asString := nondet.Choice("source", 2) == 1
	row := make([]driver.Value, len(vals))
	for i, v := range vals {
		row[i] = v
		switch v.(type) {
		case nil, int64, float64, bool, []byte, string, time.Time:
		default:
			nondet.Assert(false, "driver-value-kind")
		}
		// text columns (7, 8) may come back as string; binary columns stay []byte
		if b, ok := v.([]byte); ok && asString && (i == 7 || i == 8) {
			row[i] = string(b)
		}
	}
	nondet.Assert((row[3] == nil) == (x.PF == nil), "nil-is-sql-null")
	nondet.Assert((row[6] == nil) == (x.PT == nil), "nil-is-sql-null")
	nondet.Assert((row[8] == nil) == (x.PTxt == nil), "nil-is-sql-null")
	nondet.Assert((row[10] == nil) == (x.PBin == nil), "nil-is-sql-null")
	nondet.Assert((row[4] == nil) == (x.ZF == 0), "implicit-null")
	back, err := s.BuildStruct("xrows", row)
	nondet.Assert(err == nil, "build-ok")
	if err != nil {
		return
	}
	y := back.(*c13XRow)
	nondet.Assert(y.Id == x.Id && y.F64 == x.F64 && y.F32 == x.F32 && y.ZF == x.ZF, "struct-equal")
	nondet.Assert((y.PF == nil) == (x.PF == nil), "nil-pointer-kept")
	if x.PF != nil && y.PF != nil {
		nondet.Assert(*y.PF == *x.PF, "struct-equal")
	}
	nondet.Assert(y.T.Equal(x.T), "struct-equal")
	nondet.Assert((y.PT == nil) == (x.PT == nil), "nil-pointer-kept")
	if x.PT != nil && y.PT != nil {
		nondet.Assert(y.PT.Equal(*x.PT), "struct-equal")
	}
	nondet.Assert(y.Txt == x.Txt && y.Bin == x.Bin, "struct-equal")
	nondet.Assert((y.PTxt == nil) == (x.PTxt == nil), "nil-pointer-kept")
	if x.PTxt != nil && y.PTxt != nil {
		nondet.Assert(*y.PTxt == *x.PTxt, "struct-equal")
	}
	nondet.Assert((y.PBin == nil) == (x.PBin == nil), "nil-pointer-kept")
	if x.PBin != nil && y.PBin != nil {
		nondet.Assert(*y.PBin == *x.PBin, "struct-equal")
	}
	// a filter made from the row's own values matches it
	t, err := s.MakeTester("xrows", Filter{"f64": x.F64, "f32": x.F32, "txt": x.Txt, "bin": x.Bin, "p_f": x.PF})
	nondet.Assert(err == nil, "tester-built")
	if err == nil {
		nondet.Assert(t.Test(x), "own-filter-matches")
	}
	nondet.Cover("extras-round-trip")
}
