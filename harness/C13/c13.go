//go:build verif
// +build verif

package sqlgen

import (
	"database/sql"
	"database/sql/driver"

	"github.com/samsarahq/thunder/internal/zzverif/nondet"
)

type c13Named int32
type c13NamedBool bool
type c13NamedStr string

type c13Row struct {
	Id   int64 `sql:",primary"`
	I8   int8
	I16  int16
	I32  int32
	I    int
	U8   uint8
	U16  uint16
	U32  uint32
	U64  uint64
	B    bool
	S    string
	N    c13Named
	NB   c13NamedBool
	NS   c13NamedStr
	P    *int64
	P32  *int32
	PB   *bool
	PS   *string
	Z    int64  `sql:",implicitnull"`
	ZS   string `sql:",implicitnull"`
	Blob []byte
}

// ---- stubs for database/sql's Null* scanners (their convertAssign is
// reflection over database/sql internals): the typed source representations
// the driver produces for these column kinds.

func VerifStubNullInt64Scan(n *sql.NullInt64, value interface{}) error {
	switch v := value.(type) {
	case nil:
		n.Int64, n.Valid = 0, false
	case int64:
		n.Int64, n.Valid = v, true
	case int32:
		n.Int64, n.Valid = int64(v), true
	case int16:
		n.Int64, n.Valid = int64(v), true
	case int8:
		n.Int64, n.Valid = int64(v), true
	case int:
		n.Int64, n.Valid = int64(v), true
	default:
		nondet.Assert(false, "int-source-representation-in-scope")
	}
	return nil
}

func VerifStubNullBoolScan(n *sql.NullBool, value interface{}) error {
	switch v := value.(type) {
	case nil:
		n.Bool, n.Valid = false, false
	case bool:
		n.Bool, n.Valid = v, true
	case int64:
		n.Bool, n.Valid = v != 0, true
	case int8:
		n.Bool, n.Valid = v != 0, true
	default:
		nondet.Assert(false, "bool-source-representation-in-scope")
	}
	return nil
}

func VerifStubNullStringScan(n *sql.NullString, value interface{}) error {
	switch v := value.(type) {
	case nil:
		n.String, n.Valid = "", false
	case string:
		n.String, n.Valid = v, true
	case []byte:
		n.String, n.Valid = string(v), true
	default:
		nondet.Assert(false, "string-source-representation-in-scope")
	}
	return nil
}

func VerifStubNullFloat64Scan(n *sql.NullFloat64, value interface{}) error {
	switch v := value.(type) {
	case nil:
		n.Float64, n.Valid = 0, false
	case float64:
		n.Float64, n.Valid = v, true
	default:
		nondet.Assert(false, "float-source-representation-in-scope")
	}
	return nil
}

func c13Schema() *Schema {
	s := NewSchema()
	s.MustRegisterType("rows", UniqueId, c13Row{})
	return s
}

func C13MkRow() *c13Row {
	x := &c13Row{
		Id: nondet.Int64("id"), I8: nondet.Int8("i8"), I16: nondet.Int16("i16"), I32: nondet.Int32("i32"), I: nondet.Int("i"),
		U8: nondet.Uint8("u8"), U16: nondet.Uint16("u16"), U32: nondet.Uint32("u32"), U64: nondet.Uint64("u64"),
		B: nondet.Bool("b"), S: nondet.StringFrom("s", "", "x", "yy"),
		N: c13Named(nondet.Int32("n")), NB: c13NamedBool(nondet.Bool("nb")), NS: c13NamedStr(nondet.StringFrom("ns", "", "q")),
		Z: nondet.Int64("z"), ZS: nondet.StringFrom("zs", "", "w"),
	}
	if nondet.Choice("p", 2) == 1 {
		v := nondet.Int64("pv")
		x.P = &v
	}
	if nondet.Choice("p32", 2) == 1 {
		v := nondet.Int32("p32v")
		x.P32 = &v
	}
	if nondet.Choice("pb", 2) == 1 {
		v := nondet.Bool("pbv")
		x.PB = &v
	}
	if nondet.Choice("ps", 2) == 1 {
		v := nondet.StringFrom("psv", "", "r")
		x.PS = &v
	}
	switch nondet.Choice("blob", 3) {
	case 1:
		x.Blob = []byte{}
	case 2:
		x.Blob = []byte{nondet.Uint8("blob0"), nondet.Uint8("blob1")}
	}
	return x
}

// VerifC13RoundTrip: BuildStruct(UnbuildStruct(x)) == x for every value of the
// harness struct (full-width symbolic integers, bools, string tokens, named
// types, pointer/NULL combinations, implicit-null columns, nil/empty/non-empty
// blobs), with query-result source representations.
func VerifC13RoundTrip() {
	s := c13Schema()
	x := C13MkRow()
	vals, err := s.UnbuildStruct("rows", x)
	nondet.Assert(err == nil, "unbuild-ok")
	if err != nil {
		return
	}
	row := make([]driver.Value, len(vals))
	for i, v := range vals {
		row[i] = v
		// every value handed to the driver is a valid driver value
		switch v.(type) {
		case nil, int64, float64, bool, []byte, string:
		default:
			nondet.Assert(false, "driver-value-kind")
		}
	}
	back, err := s.BuildStruct("rows", row)
	nondet.Assert(err == nil, "build-ok")
	if err != nil {
		return
	}
	y, ok := back.(*c13Row)
	nondet.Assert(ok, "build-type")
	if !ok {
		return
	}
	nondet.Assert(nondet.DeepEq(y, x), "struct-equal")
	nondet.Cover("round-trip")
}

// VerifC13TesterReflexive: a filter made from a row's own column values
// matches that row; changing one integer column makes it fail.
func VerifC13TesterReflexive() {
	s := c13Schema()
	x := C13MkRow()
	f := Filter{"id": x.Id, "i8": x.I8, "u64": x.U64, "b": x.B, "s": x.S, "n": x.N, "p": x.P, "p_b": x.PB, "z": x.Z, "u32": x.U32}
	t, err := s.MakeTester("rows", f)
	nondet.Assert(err == nil, "tester-built")
	if err != nil {
		return
	}
	nondet.Assert(t.Test(x), "own-filter-matches")
	// pointer vs value representation of the same column value
	f2 := Filter{"i16": &x.I16, "p32": x.P32}
	t2, err := s.MakeTester("rows", f2)
	nondet.Assert(err == nil, "tester-built")
	if err == nil {
		nondet.Assert(t2.Test(x), "own-filter-matches")
	}
	// a different value does not match
	other := nondet.Int32("other")
	t3, err := s.MakeTester("rows", Filter{"i32": other})
	nondet.Assert(err == nil, "tester-built")
	if err == nil {
		nondet.Assert(t3.Test(x) == (other == x.I32), "filter-exact")
	}
	nondet.Cover("tester")
}

// ---- JSON-tagged columns

type c13Settings struct {
	Level int64  `json:"level"`
	Name  string `json:"name"`
}

type c13JRow struct {
	Id       int64          `sql:",primary"`
	Settings *c13Settings   `sql:",json"`
	ByValue  c13Settings    `sql:",json"`
	List     []int64        `sql:",json"`
}

// VerifC13JSONColumns: columns stored as JSON text: a nil pointer / nil slice
// stays nil (SQL NULL), a non-nil value comes back equal, whichever form
// (string or []byte) the driver hands the text back in.
func VerifC13JSONColumns() {
	s := NewSchema()
	s.MustRegisterType("jrows", UniqueId, c13JRow{})
	x := &c13JRow{Id: nondet.Int64("id"), ByValue: c13Settings{Level: nondet.Int64("bv"), Name: "v"}}
	if nondet.Choice("settings", 2) == 1 {
		x.Settings = &c13Settings{Level: nondet.Int64("lv"), Name: nondet.StringFrom("nm", "", "n")}
	}
	switch nondet.Choice("list", 3) {
	case 1:
		x.List = []int64{}
	case 2:
		x.List = []int64{nondet.Int64("l0")}
	}
	vals, err := s.UnbuildStruct("jrows", x)
	nondet.Assert(err == nil, "unbuild-ok")
	if err != nil {
		return
	}
	asString := nondet.Choice("source", 2) == 1
	row := make([]driver.Value, len(vals))
	for i, v := range vals {
		row[i] = v
		if b, ok := v.([]byte); ok && asString {
			row[i] = string(b)
		}
	}
	nondet.Assert((row[1] == nil) == (x.Settings == nil), "nil-is-sql-null")
	back, err := s.BuildStruct("jrows", row)
	nondet.Assert(err == nil, "build-ok")
	if err != nil {
		return
	}
	y := back.(*c13JRow)
	nondet.Assert((y.Settings == nil) == (x.Settings == nil), "nil-pointer-kept")
	if x.Settings != nil && y.Settings != nil {
		nondet.Assert(*y.Settings == *x.Settings, "struct-equal")
	}
	nondet.Assert(y.ByValue == x.ByValue && y.Id == x.Id, "struct-equal")
	nondet.Assert(len(y.List) == len(x.List), "struct-equal")
	if len(x.List) == 1 && len(y.List) == 1 {
		nondet.Assert(y.List[0] == x.List[0], "struct-equal")
	}
	nondet.Cover("json-round-trip")
}

func VerifC13Witness() {
	s := c13Schema()
	x := C13MkRow()
	vals, err := s.UnbuildStruct("rows", x)
	if err == nil && len(vals) == 21 {
		nondet.Assert(false, "reachability")
	}
}
