//go:build verif
// +build verif

package livesql

import (
	"github.com/samsarahq/thunder/internal/zzverif/nondet"
	"github.com/samsarahq/thunder/sqlgen"
)

type c13L struct {
	Id   int64 `sql:",primary"`
	A    int32
	B    *int64
	S    string
	Mail *string
	T    bool
	U    uint16
	Blob []byte
}

func c13LSchema() *sqlgen.Schema {
	s := sqlgen.NewSchema()
	s.MustRegisterType("rows", sqlgen.UniqueId, c13L{})
	return s
}

func c13LRow(name string) *c13L {
	x := &c13L{Id: nondet.Int64(name + ".id"), A: nondet.Int32(name + ".a"), S: nondet.StringFrom(name+".s", "", "bob", "bob@x"), T: nondet.Bool(name + ".t"), U: nondet.Uint16(name + ".u")}
	if nondet.Choice(name+".b", 2) == 1 {
		v := nondet.Int64(name + ".bv")
		x.B = &v
	}
	if nondet.Choice(name+".mail", 2) == 1 {
		v := nondet.StringFrom(name+".mailv", "", "bob@x", "bob")
		x.Mail = &v
	}
	switch nondet.Choice(name+".blob", 3) {
	case 1:
		x.Blob = []byte{}
	case 2:
		x.Blob = []byte{nondet.Uint8(name + ".blob0")}
	}
	return x
}

// c13Binlog: the value of struct column i in the typed form the binlog decoder
// produces (documented assumption from go-mysql's decodeValue: signed typed
// ints per column width, strings, []byte for blobs, nil for NULL).
func c13Binlog(x *c13L, col string) interface{} {
	switch col {
	case "id":
		return x.Id
	case "a":
		return x.A
	case "b":
		if x.B == nil {
			return nil
		}
		return *x.B
	case "s":
		return x.S
	case "mail":
		if x.Mail == nil {
			return nil
		}
		return *x.Mail
	case "t":
		if x.T {
			return int8(1)
		}
		return int8(0)
	case "u":
		return int16(x.U) // unsigned smallint arrives as a signed typed int of the same width
	case "blob":
		if x.Blob == nil {
			return nil
		}
		return x.Blob
	}
	return nil
}

// VerifC13BinlogRow: a change-log row decodes to the struct it was written
// from, for database column orders that differ from the struct's field order
// (reordered, an extra database column, a struct column missing in the database).
func VerifC13BinlogRow() {
	s := c13LSchema()
	table := s.ByName["rows"]
	x := c13LRow("x")
	structCols := []string{"id", "a", "b", "s", "mail", "t", "u", "blob"}
	var dbCols []string
	switch nondet.Choice("layout", 5) {
	case 0:
		dbCols = structCols
	case 1: // two text columns swapped
		dbCols = []string{"id", "a", "b", "mail", "s", "t", "u", "blob"}
	case 2: // an extra database column first
		dbCols = []string{"extra", "id", "a", "b", "s", "mail", "t", "u", "blob"}
	case 3: // a struct column missing in the database
		dbCols = []string{"id", "a", "s", "mail", "t", "u", "blob"}
	case 4: // reversed
		dbCols = []string{"blob", "u", "t", "mail", "s", "b", "a", "id"}
	}
	cm := &columnMap{expectedColumns: len(dbCols)}
	idx := map[string]int{}
	for i, c := range dbCols {
		idx[c] = i
	}
	nondet.Assert(len(table.Columns) == len(structCols), "table-shape")
	for _, c := range table.Columns {
		if i, ok := idx[c.Name]; ok {
			cm.source = append(cm.source, i)
		} else {
			cm.source = append(cm.source, -1)
		}
	}
	row := make([]interface{}, len(dbCols))
	for i, c := range dbCols {
		if c == "extra" {
			row[i] = int64(99)
			continue
		}
		row[i] = c13Binlog(x, c)
	}
	parsed, err := parseBinlogRow(table, row, cm)
	nondet.Assert(err == nil, "binlog-decodes")
	if err != nil {
		return
	}
	want := *x
	if _, ok := idx["b"]; !ok {
		want.B = nil
	}
	// the binlog form of the unsigned column is a signed typed int: uint16(int16(u)) == u
	got, ok := parsed.(*c13L)
	nondet.Assert(ok, "binlog-type")
	if !ok {
		return
	}
	nondet.Assert(nondet.DeepEq(got, &want), "binlog-equal")
	nondet.Cover("binlog")
}

// VerifC13FilterProto: a filter shipped through its protobuf form is rejected
// with an error or tests exactly the same rows.
func VerifC13FilterProto() {
	s := c13LSchema()
	x := c13LRow("f")
	f := sqlgen.Filter{}
	switch nondet.Choice("shape", 6) {
	case 0:
		f["id"] = x.Id
	case 1:
		f["a"] = x.A
		f["s"] = x.S
	case 2:
		f["b"] = x.B
	case 3:
		f["mail"] = x.Mail
		f["t"] = x.T
	case 4:
		f["u"] = x.U
	case 5:
		f["blob"] = x.Blob
	}
	p, err := FilterToProto(s, "rows", f)
	if err != nil {
		nondet.Cover("proto-rejected")
		return
	}
	tableName, f2, err := FilterFromProto(s, p)
	if err != nil {
		nondet.Cover("proto-rejected")
		return
	}
	nondet.Assert(tableName == "rows", "proto-table")
	t1, err1 := s.MakeTester("rows", f)
	t2, err2 := s.MakeTester("rows", f2)
	nondet.Assert(err1 == nil && err2 == nil, "testers-built")
	if err1 != nil || err2 != nil {
		return
	}
	y := c13LRow("y")
	nondet.Assert(t1.Test(y) == t2.Test(y), "proto-same-rows")
	nondet.Assert(t2.Test(x), "proto-same-rows")
	nondet.Cover("proto-round-trip")
}
