//go:build verif
// +build verif

package schemabuilder

import (
	"context"
	"reflect"
	"strconv"

	"github.com/samsarahq/thunder/batch"
	"github.com/samsarahq/thunder/graphql"
	"github.com/samsarahq/thunder/internal/zzverif/nondet"
)

type c14Color int64

type c14Inner struct {
	N int64
}

type C14Cat struct{ Name string }
type C14Dog struct{ Age int64 }
type c14Pet struct {
	Union
	*C14Cat
	*C14Dog
}

// text marshalers of slice kind (net.IP-like), struct kind, and by pointer:
// all advertised as strings (non-null unless by pointer)
type c14Tags []string

func (t c14Tags) MarshalText() ([]byte, error) {
	out := ""
	for _, s := range t {
		out += s + ","
	}
	return []byte(out), nil
}

type c14Uid struct{ N byte }

func (u c14Uid) MarshalText() ([]byte, error) { return []byte{'u', 'a' + u.N%8}, nil }

type c14Thing struct {
	Tags   c14Tags
	Uid    c14Uid
	PUid   *c14Uid
	ID     int64 `graphql:",key"`
	Num    int64
	PtrNum *int64
	Str    string
	Flag   bool
	Color  c14Color
	Inner  c14Inner
	PtrIn  *c14Inner
	List   []int64
	PtrLst []*c14Inner
}

// c14Conforms walks the advertised graphql.Type (what introspection reports)
// against a response value.
// c14Null: JSON null (an untyped nil or a nil pointer, which marshals as null).
func c14Null(v interface{}) bool {
	if v == nil {
		return true
	}
	rv := reflect.ValueOf(v)
	return rv.Kind() == reflect.Ptr && rv.IsNil()
}

func c14Conforms(t graphql.Type, v interface{}, nullable bool) bool {
	if c14Null(v) {
		v = nil
	}
	switch t := t.(type) {
	case *graphql.NonNull:
		return v != nil && c14Conforms(t.Type, v, false)
	case *graphql.Scalar:
		if v == nil {
			return nullable
		}
		switch t.Type {
		case "int64":
			_, ok := v.(int64)
			return ok
		case "string":
			_, ok := v.(string)
			return ok
		case "bool":
			_, ok := v.(bool)
			return ok
		}
		return true
	case *graphql.Enum:
		if v == nil {
			return nullable
		}
		s, ok := v.(string)
		if !ok {
			return false
		}
		for _, e := range t.Values {
			if e == s {
				return true
			}
		}
		return false
	case *graphql.List:
		if v == nil {
			return nullable
		}
		l, ok := v.([]interface{})
		if !ok {
			return false
		}
		for _, e := range l {
			// thunder marks list entries non-null: excepted by the property
			if e != nil && !c14Conforms(t.Type, e, true) {
				return false
			}
		}
		return true
	case *graphql.Object:
		if v == nil {
			return nullable
		}
		m, ok := v.(map[string]interface{})
		if !ok {
			return false
		}
		for k, fv := range m {
			if k == "__key" || k == "__typename" {
				continue
			}
			f, ok := t.Fields[k]
			if !ok {
				return false
			}
			if !c14Conforms(f.Type, fv, true) {
				return false
			}
		}
		return true
	case *graphql.Union:
		if v == nil {
			return nullable
		}
		m, ok := v.(map[string]interface{})
		if !ok {
			return false
		}
		tn, _ := m["__typename"].(string)
		member, ok := t.Types[tn]
		if !ok {
			return false
		}
		return c14Conforms(member, v, false)
	}
	return false
}

// c14Seq: sequential depth-first WorkScheduler (a public extension point).
type c14Seq struct{}

func (c14Seq) Run(resolver graphql.UnitResolver, units ...*graphql.WorkUnit) {
	pending := append([]*graphql.WorkUnit{}, units...)
	for len(pending) > 0 {
		u := pending[len(pending)-1]
		pending = pending[:len(pending)-1]
		pending = append(pending, resolver(u)...)
	}
}

// VerifC14BuilderConforms: a schema produced by the real reflective builder from
// Go types (scalars, pointers, named enum, nested struct, pointer struct, lists,
// union, methods returning pointers / errors / non-nullable results) and a
// query selecting everything: every response conforms to the advertised types,
// for nil / non-nil pointers and symbolic leaf values.
func VerifC14BuilderConforms() {
	s := NewSchema()
	s.Enum(c14Color(0), map[string]c14Color{"RED": 0, "BLUE": 1})
	thing := c14Thing{ID: 1, Num: nondet.Int64("num"), Str: nondet.StringFrom("str", "a", "b"), Flag: nondet.Bool("flag"), Color: c14Color(nondet.Choice("color", 2)), Inner: c14Inner{N: nondet.Int64("inner")}}
	if nondet.Choice("ptrnum", 2) == 1 {
		v := nondet.Int64("ptrnumv")
		thing.PtrNum = &v
	}
	if nondet.Choice("ptrin", 2) == 1 {
		thing.PtrIn = &c14Inner{N: nondet.Int64("ptrinv")}
	}
	for i, n := 0, nondet.Choice("list", 3); i < n; i++ {
		thing.List = append(thing.List, nondet.Int64("l"+strconv.Itoa(i)))
	}
	for i, n := 0, nondet.Choice("ptrlst", 3); i < n; i++ {
		if nondet.Choice("ptrlst"+strconv.Itoa(i)+".nil", 2) == 1 {
			thing.PtrLst = append(thing.PtrLst, nil)
		} else {
			thing.PtrLst = append(thing.PtrLst, &c14Inner{N: int64(i)})
		}
	}
	switch nondet.Choice("tags", 3) {
	case 1:
		thing.Tags = c14Tags{}
	case 2:
		thing.Tags = c14Tags{"x", "y"}
	}
	thing.Uid = c14Uid{N: byte(len(thing.Tags))}
	if thing.Tags != nil && len(thing.Tags) == 0 {
		thing.PUid = &c14Uid{N: 3}
	}
	petKind := nondet.Choice("pet", 3)
	methodNil := nondet.Choice("methodNil", 2) == 1
	q := s.Query()
	q.FieldFunc("thing", func() c14Thing { return thing })
	q.FieldFunc("thingPtr", func() *c14Thing {
		if methodNil {
			return nil
		}
		return &thing
	})
	q.FieldFunc("pet", func() *c14Pet {
		switch petKind {
		case 1:
			return &c14Pet{C14Cat: &C14Cat{Name: "tom"}}
		case 2:
			return &c14Pet{C14Dog: &C14Dog{Age: 3}}
		}
		return nil
	})
	obj := s.Object("c14Thing", c14Thing{})
	obj.FieldFunc("double", func(t c14Thing) int64 { return t.Num * 2 })
	obj.FieldFunc("maybe", func(t c14Thing) (*int64, error) { return t.PtrNum, nil })
	obj.FieldFunc("must", func(ctx context.Context, t c14Thing) (*c14Inner, error) { return &t.Inner, nil }, NonNullable)
	// batch field funcs: a struct by value, a pointer and a list per source; a source
	// may be left out of the returned map (then its value is null / zero)
	leaveOut := nondet.Choice("batchLeavesOut", 2) == 1
	obj.BatchFieldFunc("bInner", func(ctx context.Context, in map[batch.Index]c14Thing) (map[batch.Index]c14Inner, error) {
		out := map[batch.Index]c14Inner{}
		for i, t := range in {
			if !leaveOut {
				out[i] = c14Inner{N: t.Num}
			}
		}
		return out, nil
	})
	obj.BatchFieldFunc("bPtr", func(ctx context.Context, in map[batch.Index]c14Thing) (map[batch.Index]*c14Inner, error) {
		out := map[batch.Index]*c14Inner{}
		for i, t := range in {
			if !leaveOut {
				out[i] = &c14Inner{N: t.Num}
			}
		}
		return out, nil
	})
	obj.BatchFieldFunc("bList", func(ctx context.Context, in map[batch.Index]c14Thing) (map[batch.Index][]int64, error) {
		out := map[batch.Index][]int64{}
		for i, t := range in {
			if !leaveOut {
				out[i] = []int64{t.Num}
			}
		}
		return out, nil
	})
	obj.BatchFieldFunc("bNum", func(ctx context.Context, in map[batch.Index]c14Thing) (map[batch.Index]int64, error) {
		out := map[batch.Index]int64{}
		for i, t := range in {
			if !leaveOut {
				out[i] = t.Num
			}
		}
		return out, nil
	})
	schema := s.MustBuild()

	body := "{ tags uid pUid iD num ptrNum str flag color inner { n } ptrIn { n } list ptrLst { n } double maybe must { n } bInner { n } bPtr { n } bList bNum }"
	text := "{ thing " + body + " thingPtr " + body + " pet { __typename ... on C14Cat { name } ... on C14Dog { age } } }"
	query, err := graphql.Parse(text, nil)
	nondet.Assert(err == nil, "parses")
	if err != nil {
		return
	}
	ctx := context.Background()
	err = graphql.PrepareQuery(ctx, schema.Query, query.SelectionSet)
	nondet.Assert(err == nil, "validates")
	if err != nil {
		return
	}
	val, err := graphql.NewExecutor(c14Seq{}).Execute(ctx, schema.Query, nil, query)
	nondet.Assert(err == nil, "validated-no-shape-error")
	if err != nil {
		return
	}
	nondet.Assert(c14Conforms(schema.Query, val, false), "conforms")
	// spot checks of values against the data
	m := val.(map[string]interface{})
	tm := m["thing"].(map[string]interface{})
	nondet.Assert(nondet.DeepEq(tm["num"], thing.Num), "value-kept")
	nondet.Assert(nondet.DeepEq(tm["double"], thing.Num*2), "value-kept")
	nondet.Assert(c14Null(tm["ptrNum"]) == (thing.PtrNum == nil), "null-iff-nil")
	nondet.Assert(c14Null(tm["ptrIn"]) == (thing.PtrIn == nil), "null-iff-nil")
	nondet.Assert(c14Null(m["thingPtr"]) == methodNil, "null-iff-nil")
	nondet.Assert(c14Null(m["pet"]) == (petKind == 0), "null-iff-nil")
	nondet.Cover("builder-conforms")
}
