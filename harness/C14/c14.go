//go:build verif
// +build verif

package graphql

import (
	"strconv"

	"github.com/samsarahq/thunder/internal/zzverif/nondet"
)

// ---------- reference validator over the harness tree

func c14Valid(t *xType, nodes []*xNode, hasSubs bool) bool {
	switch t.kind {
	case xtScalar, xtEnum:
		return !hasSubs
	case xtList:
		return c14Valid(t.elem, nodes, hasSubs)
	case xtUnion:
		if !hasSubs {
			return false
		}
		for _, n := range nodes {
			switch n.kind {
			case xnField:
				if n.name != "__typename" || n.hasSubs {
					return false
				}
			case xnInline, xnSpread:
				if m, ok := t.members[n.on]; ok {
					if !c14Valid(m, n.subs, true) {
						return false
					}
				}
				// fragments on types outside the union are not applicable: ignored
			}
		}
		return true
	}
	// object
	if !hasSubs {
		return false
	}
	// selections that share a response key must select the same field and agree
	// on having sub-selections (fragments on the object contribute their fields)
	type key struct {
		name    string
		hasSubs bool
	}
	seen := map[string]key{}
	var collect func(ns []*xNode) bool
	collect = func(ns []*xNode) bool {
		for _, n := range ns {
			switch n.kind {
			case xnField:
				k := key{n.name, n.hasSubs}
				if prev, ok := seen[n.alias]; ok && prev != k {
					return false
				}
				seen[n.alias] = k
			case xnInline, xnSpread:
				if !collect(n.subs) {
					return false
				}
			}
		}
		return true
	}
	if !collect(nodes) {
		return false
	}
	for _, n := range nodes {
		switch n.kind {
		case xnField:
			if n.name == "__typename" {
				if n.hasSubs {
					return false
				}
				continue
			}
			f, ok := t.fields[n.name]
			if !ok {
				return false
			}
			if !c14Valid(f.typ, n.subs, n.hasSubs) {
				return false
			}
		case xnInline, xnSpread:
			if !c14Valid(t, n.subs, true) {
				return false
			}
		}
	}
	return true
}

// c14Conforms: the response matches the advertised thunder type.
func c14Conforms(t Type, v interface{}, nullable bool) bool {
	switch t := t.(type) {
	case *NonNull:
		return v != nil && c14Conforms(t.Type, v, false)
	case *Scalar:
		if v == nil {
			return nullable
		}
		_, ok := v.(int64)
		return ok
	case *Enum:
		s, ok := v.(string)
		if !ok {
			return false
		}
		for _, e := range t.Values {
			if e == s {
				return true
			}
		}
		return false
	case *List:
		l, ok := v.([]interface{})
		if !ok {
			return false
		}
		for _, e := range l {
			if !c14Conforms(t.Type, e, true) {
				return false
			}
		}
		return true
	case *Object:
		if v == nil {
			return nullable
		}
		m, ok := v.(map[string]interface{})
		if !ok {
			return false
		}
		_ = m
		return true
	case *Union:
		if v == nil {
			return nullable
		}
		_, ok := v.(map[string]interface{})
		return ok
	}
	return false
}

// ---------- wild selection trees

func c14Leafish(name string, field string) *xNode {
	n := xF(field)
	switch nondet.Choice(name+".subs", 4) {
	case 0:
	case 1:
		n.subs, n.hasSubs = []*xNode{xF("c")}, true
	case 2:
		n.subs, n.hasSubs = []*xNode{xF("bogus")}, true
	case 3:
		// a sub-selection made only of a fragment
		n.subs, n.hasSubs = []*xNode{xOn("Item", xF("v"))}, true
	}
	return n
}

func c14ItemNode(name string) *xNode {
	switch nondet.Choice(name+".kind", 12) {
	case 9: // the alias x for a scalar, an enum or an object field: two of them conflict
		return xAs("x", xF("v"))
	case 10:
		return xAs("x", xF("sub", xF("c")))
	case 11:
		return xAs("x", xF("e"))
	case 0:
		return c14Leafish(name, "v")
	case 1:
		return c14Leafish(name, "e")
	case 2:
		return c14Leafish(name, "sub")
	case 3:
		return c14Leafish(name, "nums")
	case 4:
		return c14Leafish(name, "bogus")
	case 5:
		return c14Leafish(name, "__typename")
	case 6:
		// union with a plain field / unknown member / bad member field by choice
		var subs []*xNode
		switch nondet.Choice(name+".u", 9) {
		case 6: // sub-selection on the union's own __typename, no member fragment
			subs = []*xNode{xF("__typename", xF("c"))}
		case 7: // the same next to a fragment on a type outside the union
			subs = []*xNode{xF("__typename", xF("c")), xOn("Sub", xF("c"))}
		case 8: // and next to a member fragment
			subs = []*xNode{xF("__typename", xF("c")), xOn("A", xF("x"))}
		case 0:
			subs = []*xNode{xOn("A", xF("x")), xOn("B", xF("y"))}
		case 1:
			subs = []*xNode{xF("__typename"), xOn("A", xF("x"))}
		case 2:
			subs = []*xNode{xF("x")}
		case 3:
			subs = []*xNode{xOn("A", xF("y"))}
		case 4:
			subs = []*xNode{xOn("Sub", xF("bogus")), xOn("B", xF("y"))}
		case 5:
			return xF("u")
		}
		return xF("u", subs...)
	case 7:
		return xOn("Item", c14Leafish(name+".in", "v"), c14Leafish(name+".in2", "subs"))
	}
	return c14Leafish(name, "subs")
}

// VerifC14Validation: PrepareQuery accepts exactly what the reference validator
// accepts; an accepted query executes without error, equals the reference
// evaluation and conforms to the advertised types.
func c14Validation(n int) {
	sch := xBuildSchema(&xConfig{})
	root := xFixedRoot()
	k := 1 + nondet.Choice("n", n)
	var body []*xNode
	for i := 0; i < k; i++ {
		body = append(body, c14ItemNode("n"+strconv.Itoa(i)))
	}
	var nodes []*xNode
	if nondet.Choice("top", 2) == 0 {
		nodes = []*xNode{xF("items", body...)}
	} else {
		nodes = []*xNode{xF("one", body...), c14Leafish("top", "n")}
	}
	valid := c14Valid(sch.query, nodes, true)
	res := sch.xRunText(root, nodes, nil, &xLIFOScheduler{})
	nondet.Assert((res.prepErr == nil) == valid, "accept-iff-valid")
	if res.prepErr != nil || !valid {
		nondet.Cover("rejected")
		return
	}
	nondet.Assert(res.err == nil, "validated-no-shape-error")
	if res.err != nil {
		return
	}
	var errs []xRefError
	want := sch.xEval(sch.query, root, nodes, nil, &errs)
	nondet.Assert(nondet.DeepEq(res.val, want), "fields-exactly-as-selected")
	m := res.val.(map[string]interface{})
	for alias, v := range m {
		name := alias
		f := sch.gql.Fields[name]
		if f != nil {
			nondet.Assert(c14Conforms(f.Type, v, true), "conforms")
		}
	}
	nondet.Cover("accepted")
}

// VerifC14SharedFragment: one named fragment (its selections are shared between
// its spreads by the parser) spread under two object types on which the same
// field name has different types: each spread is validated against its own type.
func VerifC14SharedFragment() {
	sch := xBuildSchema(&xConfig{})
	root := xFixedRoot()
	var body []*xNode
	switch nondet.Choice("body", 5) {
	case 0:
		body = []*xNode{xF("v")} // scalar on Item, object on Sub
	case 1:
		body = []*xNode{xF("v", xF("c"))} // valid on Sub only
	case 2:
		body = []*xNode{xF("c")} // known on Sub only
	case 3:
		body = []*xNode{xF("__typename")}
	case 4:
		body = []*xNode{xF("v", xF("v"))}
	}
	frag := &xFragDef{name: "F", on: "Item", subs: body}
	underSub := false
	place := func(name string) *xNode {
		// a spread directly under Item, or under Item.sub (a Sub)
		if nondet.Choice(name, 2) == 0 {
			return xF("one", xSpread(frag))
		}
		underSub = true
		return xF("one", xF("sub", xSpread(frag)))
	}
	nodes := []*xNode{xAs("p", place("first")), xAs("q", place("second"))}
	valid := c14Valid(sch.query, nodes, true)
	res := sch.xRunText(root, nodes, nil, &xLIFOScheduler{})
	nondet.Assert((res.prepErr == nil) == valid, "accept-iff-valid")
	if res.prepErr != nil || !valid {
		nondet.Cover("rejected")
		return
	}
	nondet.Assert(res.err == nil, "validated-no-shape-error")
	if res.err != nil {
		return
	}
	if !underSub {
		// (thunder applies a fragment to an object whatever its type condition says;
		// the reference evaluator only applies matching ones, so values are compared
		// only when every spread sits under the fragment's own type — see DESIGN 0.6)
		var errs []xRefError
		want := sch.xEval(sch.query, root, nodes, nil, &errs)
		nondet.Assert(nondet.DeepEq(res.val, want), "fields-exactly-as-selected")
	}
	nondet.Cover("accepted")
}

func VerifC14Validation2() { c14Validation(2) }
func VerifC14Validation3() { c14Validation(3) }

func VerifC14Witness() {
	sch := xBuildSchema(&xConfig{})
	res := sch.xRunText(xFixedRoot(), []*xNode{xF("items", xF("v", xF("c")))}, nil, &xLIFOScheduler{})
	if res.prepErr != nil {
		nondet.Assert(false, "reachability")
	}
}
