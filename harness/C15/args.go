//go:build verif
// +build verif

package schemabuilder

import (
	"context"

	"github.com/samsarahq/thunder/graphql"
	"github.com/samsarahq/thunder/internal/zzverif/nondet"
)

func c15ArgJSON(name string, d int) (interface{}, bool) {
	k := 6
	if d > 0 {
		k = 8
	}
	switch nondet.Choice(name+".kind", k) {
	case 0:
		return nil, false
	case 1:
		return nil, true
	case 2:
		return nondet.Bool(name + ".b"), true
	case 3:
		return float64(3), true
	case 4:
		return nondet.StringFrom(name+".s", "", "RED", "x"), true
	case 5:
		return float64(-1.5), true
	case 6:
		m := map[string]interface{}{}
		if v, ok := c15ArgJSON(name+".x", d-1); ok {
			m["x"] = v
		}
		if v, ok := c15ArgJSON(name+".y", d-1); ok {
			m["y"] = v
		}
		return m, true
	}
	var l []interface{}
	if v, ok := c15ArgJSON(name+".0", d-1); ok {
		l = append(l, v)
	}
	return l, true
}

// VerifC15ArgShapes: argument values of any JSON shape for two arguments of the
// harness argument struct at a time: a client error or a parsed value, never a
// panic; the resolver only runs when parsing succeeded.
func VerifC15ArgShapes() {
	w := &c18World{}
	schema := c18Schema(w)
	names := []string{"i8", "u64", "b", "s", "e", "p", "o", "l", "n"}
	a := names[nondet.Choice("argA", len(names))]
	vars := map[string]interface{}{}
	if v, ok := c15ArgJSON("x", 2); ok {
		vars["x"] = v
	}
	text := c18Query("query q($x: Int) ", map[string]string{a: "$x"}, nil)
	q, err := graphql.Parse(text, vars)
	nondet.Assert(err == nil, "parses")
	if err != nil {
		return
	}
	err = graphql.PrepareQuery(context.Background(), schema.Query, q.SelectionSet)
	if err != nil {
		_, isClient := err.(graphql.SanitizedError)
		nondet.Assert(isClient, "client-error")
		nondet.Assert(w.calls == 0, "rejected-before-resolver")
		nondet.Cover("rejected")
		return
	}
	_, err = graphql.NewExecutor(c14Seq{}).Execute(context.Background(), schema.Query, nil, q)
	nondet.Assert(err == nil, "parsed-args-execute")
	nondet.Cover("accepted")
}
