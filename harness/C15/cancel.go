//go:build verif
// +build verif

package reactive

import (
	"context"

	"github.com/samsarahq/thunder/internal/zzverif/nondet"
)

// VerifC15CacheUnderCancel: the request context is cancelled at any point while
// a computation still has reactive.Cache calls to make (sequentially and from a
// sibling goroutine holding the same key): nothing panics and the run returns.
func VerifC15CacheUnderCancel() {
	WriteThenReadDelay = 0
	ctx, cancel := context.WithCancel(context.Background())
	runs, returned := 0, 0
	sameKey := nondet.Choice("sameKey", 2) == 1
	r := NewRerunner(ctx, func(ctx context.Context) (interface{}, error) {
		runs++
		nondet.Assert(runs <= 3, "run-budget")
		child := func(ctx context.Context) (interface{}, error) {
			nondet.Yield()
			return 1, nil
		}
		done := make(chan struct{})
		go func() {
			defer close(done)
			key := "b"
			if sameKey {
				key = "a"
			}
			Cache(ctx, key, child)
		}()
		_, err := Cache(ctx, "a", child)
		nondet.Yield()
		_, err2 := Cache(ctx, "c", child)
		<-done
		returned++
		if err != nil {
			return nil, err
		}
		return nil, err2
	}, 0, false)
	nondet.Go("canceller", func() {
		nondet.Yield()
		cancel()
	})
	nondet.Quiesce()
	nondet.Assert(returned == runs, "run-returns")
	r.Stop()
	nondet.Quiesce()
	nondet.Cover("cancelled-run")
}
