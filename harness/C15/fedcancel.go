//go:build verif
// +build verif

package federation

import (
	"context"

	"github.com/samsarahq/thunder/graphql"
	"github.com/samsarahq/thunder/internal/zzverif/nondet"
	"github.com/samsarahq/thunder/thunderpb"
)

// C15 (cancellation clause, federated sub-request): ExecuteRequest returns
// promptly whatever the moment its context is cancelled, and leaves no
// goroutine behind.

type c15Sched struct{}

func (s *c15Sched) Run(resolver graphql.UnitResolver, startingUnits ...*graphql.WorkUnit) {
	pending := append([]*graphql.WorkUnit{}, startingUnits...)
	for len(pending) > 0 {
		u := pending[len(pending)-1]
		pending = pending[:len(pending)-1]
		pending = append(pending, resolver(u)...)
	}
}

func c15FedSchema(runs *int) *graphql.Schema {
	parse := func(json interface{}) (interface{}, error) { return nil, nil }
	f := &graphql.Field{Type: &graphql.Scalar{Type: "int64"}, ParseArguments: parse, Resolve: func(ctx context.Context, source, args interface{}, sel *graphql.SelectionSet) (interface{}, error) {
		*runs++
		nondet.Yield()
		if nondet.Choice("resolverSeesCancel", 2) == 1 && ctx.Err() != nil {
			return nil, ctx.Err()
		}
		return int64(7), nil
	}}
	q := &graphql.Object{Name: "Query", Fields: map[string]*graphql.Field{"f": f}}
	return &graphql.Schema{Query: q, Mutation: &graphql.Object{Name: "Mutation", Fields: map[string]*graphql.Field{}}}
}

func VerifC15FedCancel() {
	runs := 0
	schema := c15FedSchema(&runs)
	query, err := graphql.Parse("{ f }", nil)
	nondet.Assert(err == nil, "harness-query-parses")
	pbq, err := MarshalQuery(query)
	nondet.Assert(err == nil, "harness-query-marshals")
	ctx, cancel := context.WithCancel(context.Background())
	defer cancel()
	mode := nondet.Choice("cancel", 3) // never, before the call, concurrently at any yield point
	if mode == 1 {
		cancel()
	}
	returned := false
	var resp *thunderpb.ExecuteResponse
	var rerr error
	nondet.Go("request", func() {
		resp, rerr = ExecuteRequest(ctx, &thunderpb.ExecuteRequest{Query: pbq}, schema, graphql.NewExecutor(&c15Sched{}))
		returned = true
	})
	if mode == 2 {
		nondet.Go("canceller", func() {
			nondet.Yield()
			cancel()
		})
	}
	nondet.Quiesce()
	nondet.Assert(returned, "request-returns")
	nondet.Assert(nondet.BlockedThreads() == 0, "no-goroutine-left")
	if returned {
		nondet.Assert(resp != nil || rerr != nil, "result-or-error")
		if mode == 0 {
			nondet.Assert(rerr == nil && resp != nil && string(resp.Result) == `{"f":7}`, "uncancelled-result")
			nondet.Cover("answered")
		}
		if rerr != nil {
			nondet.Cover("cancelled-error")
		}
	}
}

func VerifC15FedWitness() {
	runs := 0
	schema := c15FedSchema(&runs)
	query, _ := graphql.Parse("{ f }", nil)
	pbq, _ := MarshalQuery(query)
	resp, err := ExecuteRequest(context.Background(), &thunderpb.ExecuteRequest{Query: pbq}, schema, graphql.NewExecutor(&c15Sched{}))
	if err == nil && resp != nil && runs == 1 {
		nondet.Assert(false, "reachability")
	}
}
