//go:build verif
// +build verif

package graphql

import (
	"context"
	"net/http"
	"strings"

	"github.com/samsarahq/thunder/internal/zzverif/nondet"
)

// C15 (cancellation clause, one-shot HTTP request): ServeHTTP returns promptly
// whatever the moment the request context is cancelled, leaves no goroutine
// behind, and writes at most one response.

type c15Writer struct {
	header http.Header
	bodies []string
	codes  []int
	done   *bool // the handler has returned
	late   int   // writes after the handler returned
}

func (w *c15Writer) Header() http.Header { return w.header }
func (w *c15Writer) Write(b []byte) (int, error) {
	if *w.done {
		w.late++
	}
	w.bodies = append(w.bodies, string(b))
	return len(b), nil
}
func (w *c15Writer) WriteHeader(code int) { w.codes = append(w.codes, code) }

// c15Body is a request body; the JSON bridge reads the content of harness
// readers from their first field.
type c15Body struct{ data string }

func (b *c15Body) Read(p []byte) (int, error) { panic("read through the JSON bridge") }
func (b *c15Body) Close() error               { return nil }

func c15HTTPSchema(runs *int) *Schema {
	parse := func(json interface{}) (interface{}, error) { return nil, nil }
	f := &Field{Type: &Scalar{Type: "int64"}, ParseArguments: parse, Resolve: func(ctx context.Context, source, args interface{}, sel *SelectionSet) (interface{}, error) {
		*runs++
		nondet.Yield()
		if nondet.Choice("resolverSeesCancel", 2) == 1 && ctx.Err() != nil {
			return nil, ctx.Err()
		}
		return int64(7), nil
	}}
	q := &Object{Name: "Query", Fields: map[string]*Field{"f": f}}
	return &Schema{Query: q, Mutation: &Object{Name: "Mutation", Fields: map[string]*Field{}}}
}

func c15Request(ctx context.Context, body string) *http.Request {
	r := &http.Request{Method: "POST", Body: &c15Body{data: body}}
	return r.WithContext(ctx)
}

func VerifC15HTTPCancel() {
	runs := 0
	h := HTTPHandlerWithExecutor(c15HTTPSchema(&runs), NewExecutor(&xLIFOScheduler{}))
	ctx, cancel := context.WithCancel(context.Background())
	defer cancel()
	mode := nondet.Choice("cancel", 3) // never, before the call, concurrently at any scheduling point
	if mode == 1 {
		cancel()
	}
	returned := false
	w := &c15Writer{header: http.Header{}, done: &returned}
	body := []string{`{"query": "{ f }"}`, `{"query": `, `{"query": "{ nope }"}`}[nondet.Choice("body", 3)]
	nondet.Go("request", func() {
		h.ServeHTTP(w, c15Request(ctx, body))
		returned = true
	})
	if mode == 2 {
		nondet.Go("canceller", func() {
			nondet.Yield()
			cancel()
		})
	}
	nondet.Quiesce()
	nondet.Assert(returned, "request-returns")
	nondet.Assert(nondet.BlockedThreads() == 0, "no-goroutine-left")
	nondet.Assert(len(w.bodies) <= 1, "at-most-one-response")
	nondet.Assert(w.late == 0, "no-write-after-return")
	if returned && mode == 0 {
		nondet.Assert(len(w.bodies) == 1, "uncancelled-answered")
		if strings.HasPrefix(body, `{"query": "{ f }"`) {
			nondet.Assert(len(w.bodies) == 1 && w.bodies[0] == `{"data":{"f":7},"errors":null}`, "uncancelled-result")
			nondet.Cover("answered")
		} else {
			nondet.Assert(len(w.bodies) == 1 && strings.HasPrefix(w.bodies[0], `{"data":null,"errors":["`), "bad-request-is-error")
			nondet.Cover("rejected")
		}
	}
	if mode != 0 && returned {
		nondet.Cover("cancelled")
	}
}

func VerifC15HTTPWitness() {
	runs := 0
	h := HTTPHandlerWithExecutor(c15HTTPSchema(&runs), NewExecutor(&xLIFOScheduler{}))
	returned := false
	w := &c15Writer{header: http.Header{}, done: &returned}
	h.ServeHTTP(w, c15Request(context.Background(), `{"query": "{ f }"}`))
	if runs == 1 && len(w.bodies) == 1 && w.header.Get("Content-Type") == "application/json" {
		nondet.Assert(false, "reachability")
	}
}
