//go:build verif
// +build verif

package graphql

import (
	"context"

	"github.com/samsarahq/thunder/internal/zzverif/nondet"
)

// c15JSON: an arbitrary JSON value of depth <= d (kinds by choice).
func c15JSON(name string, d int) (interface{}, bool) {
	k := 5
	if d > 0 {
		k = 7
	}
	switch nondet.Choice(name+".kind", k) {
	case 0:
		return nil, false // variable not supplied at all
	case 1:
		return nil, true
	case 2:
		return nondet.Bool(name + ".b"), true
	case 3:
		return float64(1), true
	case 4:
		return "true", true
	case 5:
		m := map[string]interface{}{}
		if v, ok := c15JSON(name+".m", d-1); ok {
			m["if"] = v
		}
		return m, true
	}
	var l []interface{}
	if v, ok := c15JSON(name+".l", d-1); ok {
		l = append(l, v)
	}
	return l, true
}

// VerifC15DirectiveShapes: directive conditions supplied through variables of
// any JSON shape (or not supplied): an error or a result, never a panic.
func VerifC15DirectiveShapes() {
	sch := xBuildSchema(&xConfig{})
	root := xFixedRoot()
	vars := map[string]interface{}{}
	if v, ok := c15JSON("s0", 1); ok {
		vars["s0"] = v
	}
	if v, ok := c15JSON("i0", 1); ok {
		vars["i0"] = v
	}
	var text string
	switch nondet.Choice("place", 4) {
	case 0:
		text = "query q($s0: Boolean, $i0: Boolean) { one { v @skip(if: $s0) e @include(if: $i0) } }"
	case 1:
		text = "query q($s0: Boolean, $i0: Boolean) { one { ... on Item @skip(if: $s0) { v } ...F @include(if: $i0) } } fragment F on Item { e }"
	case 2:
		text = "query q($s0: Boolean, $i0: Boolean) { n @skip(if: $s0) items @include(if: $i0) { u { ... on A @skip(if: $s0) { x } } } }"
	case 3:
		text = "query q($s0: Boolean, $i0: Boolean) { one { v @skip @include(if: $i0, other: $s0) } }"
	}
	q, err := Parse(text, vars)
	if err != nil {
		nondet.Cover("rejected")
		return
	}
	if err := PrepareQuery(context.Background(), sch.gql, q.SelectionSet); err != nil {
		// (since repair 33e7b3b validation flattens every object selection set, so a
		// bad directive condition is already refused here)
		_, isClient := err.(SanitizedError)
		nondet.Assert(isClient, "bad-condition-is-client-error")
		nondet.Cover("rejected")
		return
	}
	_, err = NewExecutor(&xLIFOScheduler{}).Execute(context.Background(), sch.gql, root, q)
	if err != nil {
		_, isClient := err.(SanitizedError)
		pe, isPath := err.(*pathError)
		if isPath {
			_, isClient = pe.inner.(SanitizedError)
		}
		nondet.Assert(isClient, "bad-condition-is-client-error")
		nondet.Cover("rejected")
		return
	}
	nondet.Cover("executed")
}

// VerifC15PanicContained: a resolver that panics (in a plain, external,
// expensive or batch field, for one element or all) fails the query with an
// error; nothing escapes.
func VerifC15PanicContained() {
	cfg := &xConfig{modes: map[string]int{}}
	field := []string{"Item.v", "Item.sub", "Sub.c", "Query.items", "Item.subs"}[nondet.Choice("field", 5)]
	cfg.modes["Item.v"] = nondet.Choice("mode.v", xNumModes)
	cfg.modes["Item.sub"] = nondet.Choice("mode.sub", xNumModes)
	cfg.k = 1 + nondet.Choice("k", 2)
	f := xFail{field: field, kind: xFailPanic}
	if nondet.Choice("one", 2) == 1 {
		f.id = 2
	}
	cfg.fails = []xFail{f}
	sch := xBuildSchema(cfg)
	root := xFixedRoot()
	root.Items[1].Sub = &xSub{C: 5}
	nodes := []*xNode{xF("items", xF("v"), xF("sub", xF("c")), xF("subs", xF("c")))}
	res := sch.xRun(root, nodes, &xChoiceScheduler{width: 2, name: "sched"})
	nondet.Assert(res.prepErr == nil, "valid-query-accepted")
	var errs []xRefError
	sch.xEval(sch.query, root, nodes, nil, &errs)
	if len(errs) > 0 {
		nondet.Assert(res.err != nil && res.val == nil, "panic-becomes-error")
		nondet.Cover("panicked")
	} else {
		nondet.Assert(res.err == nil, "no-failure-no-error")
	}
}
