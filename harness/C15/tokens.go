//go:build verif
// +build verif

package graphql

import (
	"context"
	"strconv"

	"github.com/graphql-go/graphql/gqlerrors"
	"github.com/graphql-go/graphql/language/lexer"
	"github.com/graphql-go/graphql/language/source"
	"github.com/samsarahq/thunder/internal/zzverif/nondet"
)

// The lexer is replaced by a symbolic token source: the parser's own
// comparisons on Token.Kind and Token.Value partition the token space.
var c15MaxTokens = 6

func VerifStubLex(s *source.Source) lexer.Lexer {
	n := 0
	var toks []lexer.Token
	return func(resetPosition int) (lexer.Token, error) {
		i := n
		n++
		if i < len(toks) {
			return toks[i], nil
		}
		var t lexer.Token
		if i >= c15MaxTokens {
			t = lexer.Token{Kind: lexer.EOF, Start: i, End: i + 1}
		} else {
			p := "tok" + strconv.Itoa(i)
			t = lexer.Token{Kind: nondet.IntRange(p+".kind", 1, 18), Start: i, End: i + 1}
			switch t.Kind {
			case lexer.NAME:
				t.Value = nondet.StringFrom(p+".name", "a", "query", "mutation", "subscription", "fragment", "on", "true", "false", "null", "F")
			case lexer.INT:
				t.Value = nondet.StringFrom(p+".int", "1", "99999999999999999999")
			case lexer.FLOAT:
				t.Value = nondet.StringFrom(p+".float", "1.5", "1e999")
			case lexer.STRING:
				t.Value = "s"
			}
		}
		toks = append(toks, t)
		return t, nil
	}
}

func VerifStubSyntaxError(s *source.Source, position int, description string) *gqlerrors.Error {
	return &gqlerrors.Error{Message: "Syntax Error"}
}

func VerifStubTokenDesc(token lexer.Token) string { return "token" }
func VerifStubTokenKindDesc(kind int) string      { return "kind" }

// VerifC15ParseTokens: whatever token sequence the lexer produces, Parse
// returns a query or an error (no panic), and a parsed query can be validated
// against a schema (no panic).
func c15ParseTokens(n int) {
	c15MaxTokens = n
	vars := map[string]interface{}{"a": true, "F": nil}
	q, err := Parse("ignored: tokens come from the symbolic token source", vars)
	if err != nil {
		nondet.Cover("parse-error")
		return
	}
	nondet.Assert(q != nil && q.SelectionSet != nil, "query-or-error")
	sch := xBuildSchema(&xConfig{})
	_ = PrepareQuery(context.Background(), sch.gql, q.SelectionSet)
	if _, err := Flatten(q.SelectionSet); err == nil {
		nondet.Cover("flattened")
	}
	nondet.Cover("parsed")
}

func VerifC15ParseTokens5() { c15ParseTokens(5) }
func VerifC15ParseTokens6() { c15ParseTokens(6) }
func VerifC15ParseTokens8() { c15ParseTokens(8) }
