//go:build verif
// +build verif

package graphql

import (
	"fmt"
	"errors"
	"strconv"
	"strings"

	"github.com/samsarahq/thunder/internal/zzverif/nondet"
)

var c16Fields = []string{"Item.v", "Item.sub", "Sub.c", "Query.items", "Item.e"}

func c16IsBatchMode(m int) bool { return m == xBatch || m == xBatchParallel }

// c16Matches: does the error thunder returned correspond to the expected
// failure e (same raised error; for unsanitised errors the response path of the
// failing field)?
func c16Matches(sch *xSchema, got error, e xRefError, kind int, queryName string) bool {
	field := e.err.Error() // reference errors carry the qualified field name
	if se, ok := got.(SanitizedError); ok {
		switch kind {
		case xFailSafe:
			return se.SanitizedError() == "safe "+field
		case xFailClient:
			return se.SanitizedError() == "client "+field
		case xFailWrapSafe:
			return se.SanitizedError() == "wrapped "+field
		}
		return false
	}
	pe, ok := got.(*pathError)
	if !ok {
		return false
	}
	switch kind {
	case xFailPlain:
		if pe.inner.Error() != "boom "+field {
			return false
		}
	case xFailPanic:
		if !strings.HasPrefix(pe.inner.Error(), "graphql: panic: panic "+field) {
			return false
		}
	default:
		return false
	}
	// path: stored innermost first
	want := append([]string{}, e.path...)
	if queryName != "" {
		want = append([]string{queryName}, want...)
	}
	if len(pe.path) != len(want) {
		return false
	}
	batch := c16IsBatchMode(sch.cfg.mode(field))
	for i := range want {
		g := pe.path[len(pe.path)-1-i]
		if g == want[i] {
			continue
		}
		// a batch resolver fails as a whole: thunder reports one of the batch's
		// elements, so list indices may differ for fields resolved as a batch
		if _, err := strconv.Atoi(want[i]); err == nil && batch {
			if _, err2 := strconv.Atoi(g); err2 == nil {
				continue
			}
		}
		return false
	}
	return true
}

func c16Kind(cfg *xConfig, field string, id int64) int {
	for _, f := range cfg.fails {
		if f.field == field && (f.id == 0 || f.id == id) {
			return f.kind
		}
	}
	return xOK
}

// c16Exec: a symbolic subset of failing resolvers (plain / safe / client /
// wrapped-safe error or panic; for every source or one item), in plain,
// external, expensive and batch fields, under every unit order (bounded).
func c16Exec(maxFails int, modes bool, width int) {
	cfg := &xConfig{modes: map[string]int{}}
	if modes {
		cfg.modes["Item.v"] = nondet.Choice("mode.v", xNumModes)
		cfg.modes["Item.sub"] = []int{xPlain, xExpensive, xBatch}[nondet.Choice("mode.sub", 3)]
		cfg.k = 1 + nondet.Choice("k", 2)
	}
	nf := nondet.Choice("nfails", maxFails+1)
	for i := 0; i < nf; i++ {
		p := "fail" + strconv.Itoa(i)
		f := xFail{field: c16Fields[nondet.Choice(p+".field", len(c16Fields))], kind: 1 + nondet.Choice(p+".kind", 5)}
		if nondet.Choice(p+".one", 2) == 1 {
			f.id = 2
			if f.field == "Sub.c" {
				f.id = 21 + int64(nondet.Choice(p+".sub", 2))
			}
		}
		for _, prev := range cfg.fails {
			nondet.Assume(prev.field != f.field)
		}
		cfg.fails = append(cfg.fails, f)
	}
	sch := xBuildSchema(cfg)
	root := xFixedRoot()
	root.Items[1].Sub = &xSub{C: nondet.Int64("i2.c")}
	// Item.v is selected only under aliases and Sub.c under an alias below an aliased
	// parent, so that a path built from field names instead of response keys shows
	nodes := []*xNode{xF("items", xAs("v1", xF("v")), xF("sub", xF("c")), xAs("w", xF("v")), xF("e"), xF("subs", xF("c"))), xAs("o", xF("one", xAs("s", xF("sub", xAs("cc", xF("c"))))))}
	var sched WorkScheduler = &xChoiceScheduler{width: width, name: "sched"}
	if nondet.Choice("lifo", 2) == 1 {
		sched = &xLIFOScheduler{}
	}
	res := sch.xRun(root, nodes, sched)
	nondet.Assert(res.prepErr == nil, "valid-query-accepted")
	if res.prepErr != nil {
		return
	}
	var errs []xRefError
	want := sch.xEval(sch.query, root, nodes, nil, &errs)
	if len(errs) == 0 {
		nondet.Assert(res.err == nil, "no-failure-no-error")
		if res.err == nil {
			nondet.Assert(nondet.DeepEq(res.val, want), "result-equal")
		}
		nondet.Cover("no-failure")
		return
	}
	nondet.Assert(res.err != nil, "fails-whole")
	nondet.Assert(res.val == nil, "no-partial-data")
	if res.err == nil {
		return
	}
	ok := false
	for _, e := range errs {
		// which configured failure produced e
		field := e.err.Error()
		kind := xOK
		for _, f := range cfg.fails {
			if f.field == field {
				kind = f.kind
			}
		}
		if c16Matches(sch, res.err, e, kind, "q") {
			ok = true
		}
	}
	if _, isSan := res.err.(SanitizedError); isSan {
		nondet.Assert(ok, "safe-unwrapped")
	} else {
		nondet.Assert(ok, "path-of-failing-field")
	}
	nondet.Cover("failure")
}

func VerifC16ExecErrors1()      { c16Exec(1, true, 2) }
func VerifC16ExecErrors2()      { c16Exec(2, false, 3) }
func VerifC16ExecErrors2Modes() { c16Exec(2, true, 3) }

// thorough: one failing resolver, every mode combination, wider unit-order choice
func VerifC16ExecErrors1Wide() { c16Exec(1, true, 3) }

// VerifC16Sanitize: only errors marked safe are forwarded verbatim.
func VerifC16Sanitize() {
	var err error
	safe := false
	msg := ""
	switch nondet.Choice("kind", 8) {
	case 6:
		// an error that is not marked safe but wraps (Unwrap) a safe one stays unsafe
		err = fmt.Errorf("secret context: %w", NewSafeError("inner visible"))
	case 7:
		err = fmt.Errorf("secret context: %w", NewClientError("inner client"))
	case 0:
		err = errors.New("secret")
	case 1:
		err, safe, msg = NewSafeError("visible %d", 1), true, "visible 1"
	case 2:
		err, safe, msg = NewClientError("client %s", "x"), true, "client x"
	case 3:
		err, safe, msg = WrapAsSafeError(errors.New("secret"), "wrapped"), true, "wrapped"
	case 4:
		err = &pathError{inner: errors.New("secret"), path: []string{"a"}}
	case 5:
		err = nestPathError("a", errors.New("secret"))
	}
	for i, n := 0, nondet.Choice("nest", 3); i < n; i++ {
		err = nestPathError("p"+strconv.Itoa(i), err)
	}
	got := SanitizeError(err)
	if safe {
		nondet.Assert(got == msg, "safe-verbatim")
		// nesting never hides or alters a safe error
		_, still := err.(SanitizedError)
		nondet.Assert(still, "safe-unwrapped")
	} else {
		nondet.Assert(got == "Internal server error", "generic-otherwise")
		nondet.Assert(!strings.Contains(got, "secret") && !strings.Contains(got, "inner"), "generic-otherwise")
	}
	nondet.Cover("sanitize")
}

func VerifC16Witness() {
	cfg := &xConfig{fails: []xFail{{field: "Sub.c", kind: xFailPlain, id: 0}}}
	sch := xBuildSchema(cfg)
	res := sch.xRun(xFixedRoot(), []*xNode{xF("one", xF("sub", xF("c")))}, &xLIFOScheduler{})
	if res.err != nil {
		nondet.Assert(false, "reachability")
	}
}
