//go:build verif
// +build verif

package graphql

import "github.com/samsarahq/thunder/internal/zzverif/nondet"

// c16Socket: over the websocket protocol a failure of a subscription's resolver
// reaches the client only as sanitised text; an initially failing subscription
// is reported exactly once and then closed; a failing re-computation is not
// reported at all and the subscription stays alive.
func c16Socket(kinds []int) {
	w := &kWorld{}
	w.failKind = kinds[nondet.Choice("failKind", len(kinds))]
	var script []*inEnvelope
	target := nondet.Choice("target", 3) // initial run, re-run, mutation
	switch target {
	case 0:
		w.failOnRun = 1
		script = []*inEnvelope{kEnvelope(kmSubscribe, "a", "{ live }")}
	case 1:
		w.failOnRun = 2
		script = []*inEnvelope{kEnvelope(kmSubscribe, "a", "{ live }")}
	case 2:
		w.failMutate = true
		script = []*inEnvelope{kEnvelope(kmMutate, "a", "")}
	}
	k := kStart(w, script, 3)
	k.early = nondet.Choice("earlyClose", 2) == 1
	if nondet.Choice("writer", 2) == 1 {
		nondet.Go("writer", func() {
			nondet.Yield()
			w.version++
			kInvalidate(w)
		})
	}
	k.kFinish()
	errs := map[string]int{}
	afterErr := 0
	for _, env := range k.sock.out {
		if env.Type == "error" {
			errs[env.ID]++
			msg, _ := env.Message.(string)
			nondet.Assert(msg == kExpectedText(w.failKind), "socket-text-sanitised")
			nondet.Cover("socket-error")
			continue
		}
		if errs[env.ID] > 0 {
			afterErr++
		}
	}
	nondet.Assert(errs["a"] <= 1 && errs["b"] <= 1, "reported-once")
	nondet.Assert(afterErr == 0, "nothing-after-error")
	if target == 0 && w.runs >= 1 {
		nondet.Assert(errs["a"] == 1, "initial-failure-reported")
	}
	if target == 1 {
		// a failing re-computation is retried, never reported
		nondet.Assert(errs["a"] == 0, "rerun-failure-not-reported")
	}
	if target == 2 && !k.early {
		nondet.Assert(errs["a"] == 1, "mutation-failure-reported")
	}
}

func VerifC16Socket() {
	c16Socket([]int{xFailPlain, xFailSafe, xFailClient, xFailWrapSafe, xFailPanic, kFailUnsafeWrapsSafe})
}
