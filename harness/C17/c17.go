//go:build verif
// +build verif

package graphql

import (
	"strconv"

	"github.com/samsarahq/thunder/internal/zzverif/nondet"
)

// c17Script: n messages, each of a kind and id chosen freely (colliding ids
// included), then the socket closes.
func c17Script(n int, kinds []int) []*inEnvelope {
	var script []*inEnvelope
	for i := 0; i < n; i++ {
		p := "msg" + strconv.Itoa(i)
		kind := kinds[nondet.Choice(p+".kind", len(kinds))]
		id := kIDs(nondet.Choice(p+".id", 2))
		script = append(script, kEnvelope(kind, id, "{ live }"))
	}
	return script
}

// c17Lifecycle: every accepted subscription ends exactly once (logger sees one
// Unsubscribe per Subscribe), the map is empty at close, nothing runs or is
// written afterwards, every resource is cleaned once, the limit and the
// duplicate-id rule hold.
func c17Lifecycle(nmsgs int, kinds []int, withWriter, withFailure, withCancel bool) {
	w := &kWorld{}
	if withFailure {
		switch nondet.Choice("fail", 3) {
		case 1:
			w.failKind, w.failOnRun = xFailPlain, 1+nondet.Choice("failOn", 2)
		case 2:
			w.failKind, w.failOnRun = xFailSafe, 1+nondet.Choice("failOn", 2)
		}
	}
	// the limit is a symbolic integer: the admission comparisons are decided by the solver
	maxSubs := int(nondet.IntRange("maxSubs", 1, 3))
	script := c17Script(nmsgs, kinds)
	k := kStart(w, script, maxSubs)
	k.early = nondet.Choice("earlyClose", 2) == 1
	if withCancel {
		nondet.Go("canceller", func() {
			nondet.Yield()
			k.cancel()
		})
	}
	if withWriter && nondet.Choice("writer", 2) == 1 {
		nondet.Go("writer", func() {
			nondet.Yield()
			w.version++
			kInvalidate(w)
		})
	}
	k.kFinish()
	nondet.Assert(w.maxLive <= maxSubs, "limit-held")
	// duplicate rule: while an id is live a second Subscribe for it is never logged
	liveNow := map[string]bool{}
	for _, ev := range w.order {
		id := ev[len(ev)-1:]
		if ev[:3] == "sub" {
			nondet.Assert(!liveNow[id], "duplicate-rejected")
			liveNow[id] = true
		} else {
			nondet.Assert(liveNow[id], "unsub-only-after-sub")
			liveNow[id] = false
		}
	}
	// error envelopes carry only sanitised text
	for _, env := range k.sock.out {
		if env.Type == "error" {
			msg, _ := env.Message.(string)
			ok := msg == "Internal server error" || msg == "safe failure" || msg == "duplicate subscription" || msg == "too many subscriptions" || msg == "unknown message type" || msg == `unknown field "nope"`
			nondet.Assert(ok, "only-sanitised-text")
		}
	}
}

var c17AllKinds = []int{kmSubscribe, kmUnsubscribe, kmMutate, kmEcho, kmUnknown, kmMalformed, kmBadQuery}

// quick: 2 messages of the three main kinds; no concurrent data change
func VerifC17Two() { c17Lifecycle(2, []int{kmSubscribe, kmUnsubscribe, kmMutate}, false, false, false) }

// quick: 1 message of any kind racing with a data change
func VerifC17OneWriter() { c17Lifecycle(1, c17AllKinds, true, false, false) }

// thorough: 2 messages of the three main kinds racing with a data change
func VerifC17TwoWriter() { c17Lifecycle(2, []int{kmSubscribe, kmUnsubscribe, kmMutate}, true, false, false) }

// quick: one subscription whose resolver fails (plain or safe) on run 1 or 2, a writer
func VerifC17Failing() {
	c17Lifecycle(1, []int{kmSubscribe}, true, true, false)
}

// quick: one subscribe or mutate, a data change, and cancellation of the connection context at any point
func VerifC17Cancel() {
	c17Lifecycle(1, []int{kmSubscribe, kmMutate}, true, false, true)
}

// thorough: 3 messages over all 7 kinds
func VerifC17Three() { c17Lifecycle(3, c17AllKinds, true, false, false) }

// thorough: 2 messages over all kinds with failures
func VerifC17TwoFailing() { c17Lifecycle(2, c17AllKinds, true, true, false) }

func VerifC17Witness() {
	w := &kWorld{}
	k := kStart(w, []*inEnvelope{kEnvelope(kmSubscribe, "a", "{ live }")}, 2)
	nondet.Quiesce()
	if !k.served && w.subs["a"] == 1 && len(k.sock.out) == 1 {
		nondet.Assert(false, "reachability")
	}
}
