//go:build verif
// +build verif

package schemabuilder

import (
	"context"
	"strconv"

	"github.com/samsarahq/thunder/graphql"
	"github.com/samsarahq/thunder/internal/zzverif/nondet"
)

type c18Enum int64

type c18Nested struct {
	X int16 `graphql:"x"`
	Y *bool `graphql:"y"`
}

type c18Args struct {
	I8  int8     `graphql:"i8"`
	I16 int16    `graphql:"i16"`
	I32 int32    `graphql:"i32"`
	I64 int64    `graphql:"i64"`
	I   int      `graphql:"i"`
	U8  uint8    `graphql:"u8"`
	U16 uint16   `graphql:"u16"`
	U32 uint32   `graphql:"u32"`
	U64 uint64   `graphql:"u64"`
	U   uint     `graphql:"u"`
	B   bool     `graphql:"b"`
	S   string   `graphql:"s"`
	E   c18Enum  `graphql:"e"`
	P   *int64   `graphql:"p"`
	O   int64    `graphql:"o,optional"`
	L   []int32  `graphql:"l"`
	N   c18Nested `graphql:"n"`
}

type c18World struct {
	calls int
	got   c18Args
}

func c18Schema(w *c18World) *graphql.Schema {
	s := NewSchema()
	s.Enum(c18Enum(0), map[string]c18Enum{"RED": 0, "BLUE": 1})
	q := s.Query()
	q.FieldFunc("echo", func(args c18Args) int64 {
		w.calls++
		w.got = args
		return 1
	})
	return s.MustBuild()
}

// c18Field: argument name, width, signedness (integer arguments).
type c18Field struct {
	name   string
	w      int
	signed bool
}

var c18Ints = []c18Field{
	{"i8", 8, true}, {"i16", 16, true}, {"i32", 32, true}, {"i64", 64, true}, {"i", 64, true},
	{"u8", 8, false}, {"u16", 16, false}, {"u32", 32, false}, {"u64", 64, false}, {"u", 64, false},
}

// c18Query renders the echo call; every required argument is given as literal 0
// / false / "" / RED / [] / {x:0} unless overridden.
func c18Query(header string, over map[string]string, omit map[string]bool) string {
	def := map[string]string{"i8": "0", "i16": "0", "i32": "0", "i64": "0", "i": "0", "u8": "0", "u16": "0", "u32": "0", "u64": "0", "u": "0",
		"b": "false", "s": "\"\"", "e": "RED", "l": "[]", "n": "{x: 0}"}
	order := []string{"i8", "i16", "i32", "i64", "i", "u8", "u16", "u32", "u64", "u", "b", "s", "e", "p", "o", "l", "n"}
	out := header + "{ echo("
	first := true
	for _, k := range order {
		v, ok := over[k]
		if !ok {
			v, ok = def[k]
		}
		if !ok || omit[k] {
			continue
		}
		if !first {
			out += ", "
		}
		first = false
		out += k + ": " + v
	}
	return out + ") }"
}

func c18Run(w *c18World, schema *graphql.Schema, text string, vars map[string]interface{}) (prepErr, execErr error) {
	q, err := graphql.Parse(text, vars)
	if err != nil {
		return err, nil
	}
	ctx := context.Background()
	if err := graphql.PrepareQuery(ctx, schema.Query, q.SelectionSet); err != nil {
		return err, nil
	}
	nondet.Assert(w.calls == 0, "parsed-before-resolver")
	_, err = graphql.NewExecutor(c14Seq{}).Execute(ctx, schema.Query, nil, q)
	return nil, err
}

func c18IntOf(a *c18Args, name string) (int64, uint64) {
	switch name {
	case "i8":
		return int64(a.I8), 0
	case "i16":
		return int64(a.I16), 0
	case "i32":
		return int64(a.I32), 0
	case "i64":
		return a.I64, 0
	case "i":
		return int64(a.I), 0
	case "u8":
		return 0, uint64(a.U8)
	case "u16":
		return 0, uint64(a.U16)
	case "u32":
		return 0, uint64(a.U32)
	case "u64":
		return 0, a.U64
	case "u":
		return 0, uint64(a.U)
	}
	return 0, 0
}

func c18InRange(f c18Field, v int64) bool {
	// representable in the target type and within the float64-exact range
	const exact = int64(1) << 53
	if v > exact || v < -exact {
		return false
	}
	if f.signed {
		switch f.w {
		case 8:
			return v >= -128 && v <= 127
		case 16:
			return v >= -32768 && v <= 32767
		case 32:
			return v >= -2147483648 && v <= 2147483647
		}
		return true
	}
	if v < 0 {
		return false
	}
	switch f.w {
	case 8:
		return v <= 255
	case 16:
		return v <= 65535
	case 32:
		return v <= 4294967295
	}
	return true
}

// VerifC18IntVariable: for each of the 10 integer argument types, a symbolic
// value (representable in the type, |v| <= 2^53) sent through a variable
// arrives in the resolver as the same value.
func VerifC18IntVariable() {
	w := &c18World{}
	schema := c18Schema(w)
	f := c18Ints[nondet.Choice("field", len(c18Ints))]
	v := nondet.Int64("v")
	nondet.Assume(c18InRange(f, v))
	vars := map[string]interface{}{"x": nondet.Float64FromInt(v)}
	text := c18Query("query q($x: Int) ", map[string]string{f.name: "$x"}, nil)
	prepErr, execErr := c18Run(w, schema, text, vars)
	nondet.Assert(prepErr == nil && execErr == nil, "accepted")
	if prepErr != nil || execErr != nil {
		return
	}
	nondet.Assert(w.calls == 1, "resolver-ran-once")
	s, u := c18IntOf(&w.got, f.name)
	if f.signed {
		nondet.Assert(s == v, "value-equal")
	} else {
		nondet.Assert(u == uint64(v), "value-equal")
	}
	nondet.Cover("int-variable")
}

var c18Boundary = []int64{0, 1, -1, 127, 128, -128, 255, 256, 32767, 32768, -32768, 65535, 65536, 2147483647, 2147483648, -2147483648, 3000000000, 4294967295, 4294967296, 9007199254740992, -9007199254740992}

// VerifC18LiteralVsVariable: a boundary value written as a literal and the same
// value sent through a variable arrive as the same Go value, equal to the value.
func VerifC18LiteralVsVariable() {
	f := c18Ints[nondet.Choice("field", len(c18Ints))]
	v := c18Boundary[nondet.Choice("value", len(c18Boundary))]
	nondet.Assume(c18InRange(f, v))
	w1 := &c18World{}
	p1, e1 := c18Run(w1, c18Schema(w1), c18Query("", map[string]string{f.name: strconv.FormatInt(v, 10)}, nil), nil)
	w2 := &c18World{}
	p2, e2 := c18Run(w2, c18Schema(w2), c18Query("query q($x: Int) ", map[string]string{f.name: "$x"}, nil), map[string]interface{}{"x": float64(v)})
	nondet.Assert(p1 == nil && e1 == nil && p2 == nil && e2 == nil, "accepted")
	if p1 != nil || e1 != nil || p2 != nil || e2 != nil {
		return
	}
	nondet.Assert(nondet.DeepEq(w1.got, w2.got), "literal-eq-variable")
	s, u := c18IntOf(&w1.got, f.name)
	if f.signed {
		nondet.Assert(s == v, "value-equal")
	} else {
		nondet.Assert(u == uint64(v), "value-equal")
	}
	nondet.Cover("literal-vs-variable")
}

// VerifC18Others: bool / string / enum / pointer / optional / list / nested
// input object by literal and by variable; optional and pointer arguments left
// out arrive as zero / nil.
func VerifC18Others() {
	w := &c18World{}
	schema := c18Schema(w)
	b := nondet.Bool("b")
	s := nondet.StringFrom("s", "x", "yy")
	e := nondet.Choice("e", 2)
	enumNames := []string{"RED", "BLUE"}
	pGiven := nondet.Choice("p.given", 3) // 0 omitted, 1 null, 2 value
	oGiven := nondet.Choice("o.given", 2) == 1
	pv := nondet.Int64("p")
	nondet.Assume(pv <= 1<<53 && pv >= -(1<<53))
	ov := nondet.Int64("o")
	nondet.Assume(ov <= 1<<53 && ov >= -(1<<53))
	l0, l1 := nondet.Int32("l0"), nondet.Int32("l1")
	nx := nondet.Int16("nx")
	ny := nondet.Bool("ny")
	nyGiven := nondet.Choice("ny.given", 2) == 1
	vars := map[string]interface{}{"b": b, "s": s, "e": enumNames[e], "o": nondet.Float64FromInt(ov),
		"l": []interface{}{nondet.Float64FromInt(int64(l0)), nondet.Float64FromInt(int64(l1))}}
	n := map[string]interface{}{"x": nondet.Float64FromInt(int64(nx))}
	if nyGiven {
		n["y"] = ny
	}
	vars["n"] = n
	over := map[string]string{"b": "$b", "s": "$s", "e": "$e", "l": "$l", "n": "$n"}
	omit := map[string]bool{}
	// the list and the input object as a whole variable, or written as literals
	// whose elements / fields are variables
	if nondet.Choice("l.form", 2) == 1 {
		over["l"] = "[$l0, $l1]"
		vars["l0"], vars["l1"] = nondet.Float64FromInt(int64(l0)), nondet.Float64FromInt(int64(l1))
	}
	if nondet.Choice("n.form", 2) == 1 {
		over["n"] = "{x: $nx}"
		vars["nx"] = nondet.Float64FromInt(int64(nx))
		if nyGiven {
			over["n"] = "{x: $nx, y: $ny}"
			vars["ny"] = ny
		}
	}
	switch pGiven {
	case 1:
		over["p"] = "$p" // variable not supplied: null
	case 2:
		over["p"] = "$p"
		vars["p"] = nondet.Float64FromInt(pv)
	}
	if oGiven {
		over["o"] = "$o"
	}
	text := c18Query("query q($b: Boolean, $s: String, $e: c18Enum, $p: Int, $o: Int, $l: [Int], $n: c18Nested_InputObject, $l0: Int, $l1: Int, $nx: Int, $ny: Boolean) ", over, omit)
	prepErr, execErr := c18Run(w, schema, text, vars)
	nondet.Assert(prepErr == nil && execErr == nil, "accepted")
	if prepErr != nil || execErr != nil {
		return
	}
	g := w.got
	nondet.Assert(g.B == b, "value-equal")
	nondet.Assert(g.S == s, "value-equal")
	nondet.Assert(int(g.E) == e, "value-equal")
	if pGiven == 2 {
		nondet.Assert(g.P != nil && *g.P == pv, "value-equal")
	} else {
		nondet.Assert(g.P == nil, "nil-or-zero-when-absent")
	}
	if oGiven {
		nondet.Assert(g.O == ov, "value-equal")
	} else {
		nondet.Assert(g.O == 0, "nil-or-zero-when-absent")
	}
	nondet.Assert(len(g.L) == 2 && g.L[0] == l0 && g.L[1] == l1, "value-equal")
	nondet.Assert(g.N.X == nx, "value-equal")
	if nyGiven {
		nondet.Assert(g.N.Y != nil && *g.N.Y == ny, "value-equal")
	} else {
		nondet.Assert(g.N.Y == nil, "nil-or-zero-when-absent")
	}
	nondet.Cover("others")
}

// VerifC18Defaults: a variable's default is used exactly when no non-null
// value is supplied.
func VerifC18Defaults() {
	w := &c18World{}
	schema := c18Schema(w)
	vars := map[string]interface{}{}
	v := nondet.Int64("v")
	nondet.Assume(v <= 1<<53 && v >= -(1<<53))
	supplied := nondet.Choice("supplied", 3) // 0 absent, 1 explicit null, 2 value
	switch supplied {
	case 1:
		vars["x"] = nil
	case 2:
		vars["x"] = nondet.Float64FromInt(v)
	}
	target := nondet.Choice("target", 2) // required i64, or pointer p
	over := map[string]string{"i64": "$x"}
	if target == 1 {
		over = map[string]string{"p": "$x"}
	}
	text := c18Query("query q($x: Int = 7) ", over, nil)
	prepErr, execErr := c18Run(w, schema, text, vars)
	nondet.Assert(prepErr == nil && execErr == nil, "accepted")
	if prepErr != nil || execErr != nil {
		return
	}
	want := int64(7)
	if supplied == 2 {
		want = v
	}
	if target == 0 {
		nondet.Assert(w.got.I64 == want, "default-iff-no-value")
	} else {
		nondet.Assert(w.got.P != nil && *w.got.P == want, "default-iff-no-value")
	}
	nondet.Cover("defaults")
}

// VerifC18Mismatch: wrong kinds and missing required arguments are rejected
// before any resolver runs.
func VerifC18Mismatch() {
	w := &c18World{}
	schema := c18Schema(w)
	over := map[string]string{}
	omit := map[string]bool{}
	vars := map[string]interface{}{}
	header := ""
	omitAll := false
	switch nondet.Choice("case", 17) {
	case 12:
		over["n"] = "{}" // nested required x missing, nothing else in the object
	case 13:
		omitAll = true // no argument at all although most are required
	case 14:
		header = "query q($x: [Int]) "
		over["l"] = "$x"
		vars["x"] = []interface{}{nil}
	case 15:
		header = "query q($x: [Int]) "
		over["l"] = "$x"
		vars["x"] = []interface{}{float64(1), nil, float64(3)}
	case 16:
		header = "query q($x: Int) "
		over["l"] = "[1, $x]" // element bound to a variable that is not supplied
	case 0:
		over["i32"] = "\"str\""
	case 1:
		over["b"] = "1"
	case 2:
		over["s"] = "5"
	case 3:
		over["e"] = "GREEN"
	case 4:
		over["n"] = "[1]"
	case 5:
		over["l"] = "{x: 1}"
	case 6:
		omit["i16"] = true
	case 7:
		over["n"] = "{y: true}" // nested required x missing
	case 8:
		header = "query q($x: Int) "
		over["u8"] = "$x"
		vars["x"] = "text"
	case 9:
		header = "query q($x: Int) "
		over["b"] = "$x"
		vars["x"] = float64(1)
	case 10:
		over["l"] = "[1, \"a\"]"
	case 11:
		header = "query q($x: Int) "
		over["i64"] = "$x" // required argument bound to a variable that is not supplied
	}
	text := c18Query(header, over, omit)
	if omitAll {
		text = "{ echo }"
	}
	prepErr, _ := c18Run(w, schema, text, vars)
	nondet.Assert(prepErr != nil, "rejected-before-resolver")
	nondet.Assert(w.calls == 0, "rejected-before-resolver")
	if prepErr != nil {
		_, isClient := prepErr.(graphql.SanitizedError)
		nondet.Assert(isClient, "client-error")
	}
	nondet.Cover("mismatch")
}

func VerifC18Witness() {
	w := &c18World{}
	schema := c18Schema(w)
	p, e := c18Run(w, schema, c18Query("", map[string]string{"i8": "5"}, nil), nil)
	if p == nil && e == nil && w.got.I8 == 5 {
		nondet.Assert(false, "reachability")
	}
}
