//go:build verif
// +build verif

package graphql

import (
	"strconv"

	"github.com/samsarahq/thunder/internal/zzverif/nondet"
)

// c19Dirs attaches directives to n by choice; conditions are symbolic booleans
// passed as query variables (or literals when lit is set).
type c19Vars struct {
	vars map[string]interface{}
	ns   int
	ni   int
}

func (v *c19Vars) skipVar(name string) (*bool, string) {
	b := nondet.Bool(name)
	vn := "s" + strconv.Itoa(v.ns)
	v.ns++
	v.vars[vn] = b
	return &b, vn
}

func (v *c19Vars) includeVar(name string) (*bool, string) {
	b := nondet.Bool(name)
	vn := "i" + strconv.Itoa(v.ni)
	v.ni++
	v.vars[vn] = b
	return &b, vn
}

const c19DirKinds = 6

func (v *c19Vars) decorate(n *xNode, name string, kinds int) *xNode {
	switch nondet.Choice(name+".dirs", kinds) {
	case 0:
	case 1:
		n.skip, n.skipVar = v.skipVar(name + ".skip")
	case 2:
		n.include, n.includeVar = v.includeVar(name + ".include")
	case 3:
		n.skip, n.skipVar = v.skipVar(name + ".skip")
		n.include, n.includeVar = v.includeVar(name + ".include")
	case 4:
		n.skip, n.skipVar = v.skipVar(name + ".skip")
		n.include, n.includeVar = v.includeVar(name + ".include")
		n.includeFirst = true
	case 5:
		// literal condition
		b := nondet.Choice(name+".lit", 2) == 1
		if nondet.Choice(name+".litkind", 2) == 1 {
			n.skip = &b
		} else {
			n.include = &b
		}
	}
	return n
}

func c19Check(sch *xSchema, root *xRoot, nodes []*xNode, vars map[string]interface{}) {
	res := sch.xRunText(root, nodes, vars, &xLIFOScheduler{})
	nondet.Assert(res.prepErr == nil, "valid-query-accepted")
	if res.prepErr != nil {
		return
	}
	nondet.Assert(res.err == nil, "no-error")
	if res.err != nil {
		return
	}
	var errs []xRefError
	want := sch.xEval(sch.query, root, nodes, nil, &errs)
	nondet.Assert(nondet.DeepEq(res.val, want), "equals-pruned")
	nondet.Cover("compared")
}

var c19Frag = &xFragDef{name: "F", on: "Item", subs: []*xNode{xF("nums"), xAs("fv", xF("v"))}}

func c19Node(v *c19Vars, name string, dirKinds int) *xNode {
	var n *xNode
	switch nondet.Choice(name+".kind", 6) {
	case 0:
		n = xF("v")
	case 1:
		n = xF("sub", xF("c"))
	case 2:
		n = xF("__typename")
	case 3:
		n = xOn("Item", xF("e"), xAs("fv", xF("v")))
	case 4:
		n = xSpread(c19Frag)
	case 5:
		n = xF("sub", xAs("c2", xF("c")))
	}
	return v.decorate(n, name, dirKinds)
}

// VerifC19Exec: up to n nodes (fields, inline fragments, spreads of one named
// fragment, repeated aliases) under an object parent, each with no directive,
// @skip, @include or both (in either written order), conditions from variables
// (symbolic) or literals. The result must equal evaluating the pruned query.
func c19Exec(maxNodes int, dirKinds []int) {
	sch := xBuildSchema(&xConfig{})
	root := xFixedRoot()
	v := &c19Vars{vars: map[string]interface{}{}}
	n := 1 + nondet.Choice("n", maxNodes)
	var body []*xNode
	for i := 0; i < n; i++ {
		body = append(body, c19Node(v, "n"+strconv.Itoa(i), dirKinds[i]))
	}
	nodes := []*xNode{xF("one", body...)}
	c19Check(sch, root, nodes, v.vars)
}

func VerifC19Exec2()     { c19Exec(2, []int{c19DirKinds, 2}) }
func VerifC19Exec2Full() { c19Exec(2, []int{c19DirKinds, c19DirKinds}) }
func VerifC19Exec3()     { c19Exec(3, []int{c19DirKinds, 3, 2}) }

// VerifC19TopLevel: directives on top-level selections and fragments.
func VerifC19TopLevel() {
	sch := xBuildSchema(&xConfig{})
	root := xFixedRoot()
	v := &c19Vars{vars: map[string]interface{}{}}
	nodes := []*xNode{
		v.decorate(xF("n"), "a", 5),
		v.decorate(xF("__typename"), "b", 5),
		v.decorate(xOn("Query", xAs("m", xF("n"))), "c", 3),
	}
	c19Check(sch, root, nodes, v.vars)
}

// VerifC19RepeatedFragment: the same named fragment spread several times with
// independent conditions, under one parent and under two parents.
func VerifC19RepeatedFragment() {
	sch := xBuildSchema(&xConfig{})
	root := xFixedRoot()
	v := &c19Vars{vars: map[string]interface{}{}}
	var nodes []*xNode
	switch nondet.Choice("shape", 3) {
	case 0:
		nodes = []*xNode{
			xF("one", v.decorate(xSpread(c19Frag), "s0", 5), xF("id")),
			xF("items", v.decorate(xSpread(c19Frag), "s1", 5), xF("id")),
		}
	case 1:
		nodes = []*xNode{xF("one", v.decorate(xSpread(c19Frag), "s0", 5), v.decorate(xSpread(c19Frag), "s1", 5), xF("id"))}
	case 2:
		// plain spread first, conditional spread later (and vice versa)
		a, b := xSpread(c19Frag), v.decorate(xSpread(c19Frag), "s1", 5)
		if nondet.Choice("order", 2) == 1 {
			a, b = b, a
		}
		nodes = []*xNode{xF("items", a, xF("id")), xF("one", b, xF("id"))}
	}
	c19Check(sch, root, nodes, v.vars)
}

// VerifC19Union: directives on union-member fragments and on __typename under
// a union parent.
func VerifC19Union() {
	sch := xBuildSchema(&xConfig{})
	root := xFixedRoot()
	v := &c19Vars{vars: map[string]interface{}{}}
	u := xF("u",
		v.decorate(xOn("A", xF("x")), "fa", 5),
		v.decorate(xOn("B", xF("y")), "fb", 5),
		v.decorate(xF("__typename"), "tn", 3),
	)
	nodes := []*xNode{xF("items", u, xF("id"))}
	c19Check(sch, root, nodes, v.vars)
}

// VerifC19Nested: a conditional field whose sub-selection has conditional fields.
func VerifC19Nested() {
	sch := xBuildSchema(&xConfig{})
	root := xFixedRoot()
	v := &c19Vars{vars: map[string]interface{}{}}
	sub := v.decorate(xF("sub", v.decorate(xF("c"), "c", 5), xAs("k", xF("c"))), "sub", 5)
	nodes := []*xNode{xF("items", sub, v.decorate(xF("v"), "v", 2), xF("id"))}
	c19Check(sch, root, nodes, v.vars)
}

// VerifC19Defaults: conditions from variables that take their declared default
// (the client does not supply them) or are supplied, used in the operation body
// and inside the body of a named fragment that is spread twice.
func VerifC19Defaults() {
	sch := xBuildSchema(&xConfig{})
	root := xFixedRoot()
	v := &c19Vars{vars: map[string]interface{}{}}
	xVarDefaults = map[string]bool{}
	cond := func(n *xNode, name string, vn string) *xNode {
		var b bool
		if nondet.Choice(name+".transport", 2) == 1 {
			b = nondet.Choice(name+".default", 2) == 1
			xVarDefaults[vn] = b
		} else {
			b = nondet.Bool(name + ".val")
			v.vars[vn] = b
		}
		if vn[0] == 's' {
			n.skip, n.skipVar = &b, vn
		} else {
			n.include, n.includeVar = &b, vn
		}
		return n
	}
	frag := &xFragDef{name: "G", on: "Item", subs: []*xNode{
		xF("nums"),
		cond(xAs("fv", xF("v")), "infrag.skip", "s0"),
		cond(xF("sub", xF("c")), "infrag.include", "i0"),
	}}
	nodes := []*xNode{
		xF("one", xSpread(frag), xF("id"), cond(xF("e"), "body.skip", "s1")),
		xF("items", xF("id"), cond(xSpread(frag), "spread.include", "i1")),
	}
	c19Check(sch, root, nodes, v.vars)
	xVarDefaults = nil
}

func VerifC19Witness() {
	sch := xBuildSchema(&xConfig{})
	root := xFixedRoot()
	v := &c19Vars{vars: map[string]interface{}{}}
	n := xF("v")
	n.skip, n.skipVar = v.skipVar("s")
	res := sch.xRunText(root, []*xNode{xF("one", n, xF("id"))}, v.vars, &xLIFOScheduler{})
	if res.err == nil && res.prepErr == nil {
		if _, has := res.val.(map[string]interface{})["one"].(map[string]interface{})["v"]; !has {
			nondet.Assert(false, "reachability")
		}
	}
}
