//go:build verif
// +build verif

package federation

import (
	"github.com/samsarahq/thunder/internal/zzverif/nondet"
)

// c19Dir: one node with a directive state; returns the annotated text and
// whether the pruned query keeps the node.
func c19Dir(name string, states int) (string, bool) {
	switch nondet.Choice(name, states) {
	case 1:
		return " @skip(if: true)", false
	case 2:
		return " @include(if: false)", false
	case 3:
		return " @skip(if: false)", true
	case 4:
		return " @include(if: true)", true
	case 5:
		return " @skip(if: false) @include(if: false)", false
	}
	return "", true
}

// VerifC19Gateway: through the real federation gateway (planner, flattener,
// executor, service-side execution) a query with @skip / @include on
// __typename, on a scalar field, on an object field that lives on another
// service, and on an inline fragment answers exactly what the combined server
// answers for the textually pruned query.
func VerifC19Gateway() {
	g := &c06Gen{used: map[string]bool{}}
	annotated, pruned := "", ""
	add := func(text, dir string, keep bool, close string) {
		annotated += " " + text + dir + close
		if keep {
			pruned += " " + text + close
		}
	}
	d, keep := c19Dir("typename", 6)
	add("__typename", d, keep, "")
	d, keep = c19Dir("a", 3)
	add("a", d, keep, "")
	g.used["Item.a"] = true
	d, keep = c19Dir("sub", 3)
	add("sub", d, keep, " { c }")
	g.used["Item.sub"] = true
	g.used["Sub.c"] = true
	d, keep = c19Dir("frag", 2)
	add("... on Item", d, keep, " { b }")
	g.used["Item.b"] = true
	as := c06Partition(g.used, false)
	data := c06FixedData()
	w := c06Setup([]string{"s1", "s2"}, as, data)
	want, ok := w.reference("{ first { id" + pruned + " } }")
	nondet.Assert(ok, "generated-query-valid")
	if !ok {
		return
	}
	got, err := w.viaGateway("{ first { id" + annotated + " } }")
	nondet.Assert(err == nil, "gateway-answers")
	if err != nil {
		return
	}
	nondet.Assert(nondet.DeepEq(got, want), "equals-pruned")
	nondet.Cover("compared")
}
