//go:build verif
// +build verif

package concurrencylimiter

import (
	"context"
	"strconv"

	"github.com/samsarahq/thunder/internal/zzverif/nondet"
)

type c20State struct {
	n        int
	inCS     int
	finished int
}

func (s *c20State) enter() {
	s.inCS++
	nondet.Assert(s.inCS <= s.n, "at-most-n")
}

func (s *c20State) leave() { s.inCS-- }

// c20Script runs one goroutine's usage pattern. Counting convention: a
// goroutine is "in" from the return of Acquire to just before its (first)
// release, excluding the time inside TemporarilyRelease.
func c20Script(s *c20State, ctx context.Context, kind int) {
	switch kind {
	case 0: // acquire, work, release
		_, rel := Acquire(ctx)
		s.enter()
		nondet.Yield()
		s.leave()
		rel()
	case 1: // release twice (idempotent)
		_, rel := Acquire(ctx)
		s.enter()
		s.leave()
		rel()
		rel()
	case 2: // temporary release around a blocking call
		hctx, rel := Acquire(ctx)
		s.enter()
		s.leave()
		TemporarilyRelease(hctx, func() { nondet.Yield() })
		s.enter()
		s.leave()
		rel()
	case 3: // release during the temporary release
		hctx, rel := Acquire(ctx)
		s.enter()
		s.leave()
		TemporarilyRelease(hctx, func() { rel() })
		// released for good: no further release call is needed (or made)
	case 4: // nested temporary release
		hctx, rel := Acquire(ctx)
		s.enter()
		s.leave()
		TemporarilyRelease(hctx, func() {
			TemporarilyRelease(hctx, func() { nondet.Yield() })
		})
		s.enter()
		s.leave()
		rel()
	case 5: // temporary release on a context without holder
		ran := false
		TemporarilyRelease(ctx, func() { ran = true })
		nondet.Assert(ran, "f-runs-without-holder")
	case 6: // release from another goroutine while temporarily released
		hctx, rel := Acquire(ctx)
		s.enter()
		s.leave()
		done := make(chan struct{})
		TemporarilyRelease(hctx, func() {
			go func() { rel(); close(done) }()
			nondet.Yield()
		})
		<-done
	case 7: // release, then another temporary release, both inside the temporary release
		hctx, rel := Acquire(ctx)
		s.enter()
		s.leave()
		TemporarilyRelease(hctx, func() {
			rel()
			TemporarilyRelease(hctx, func() { nondet.Yield() })
		})
		// released for good
	case 8: // the holder's context is cancelled while it is temporarily released
		cctx, cancel := context.WithCancel(ctx)
		hctx, rel := Acquire(cctx)
		s.enter()
		s.leave()
		TemporarilyRelease(hctx, func() {
			nondet.Yield()
			cancel()
		})
		// back from the temporary release the goroutine holds a token again
		s.enter()
		nondet.Yield()
		s.leave()
		rel()
	}
	s.finished++
}

const c20Kinds = 9

var c20Fixed []int // fixed scripts instead of chosen ones

func c20Run(g int, n int) {
	s := &c20State{n: n}
	ctx := With(context.Background(), n)
	prev := 0
	for i := 0; i < g; i++ {
		kind := 0
		if c20Fixed != nil {
			kind = c20Fixed[i]
		} else {
			kind = nondet.Choice("script"+strconv.Itoa(i), c20Kinds)
		}
		// goroutines are interchangeable: explore script multisets, not sequences
		nondet.Assume(kind >= prev)
		prev = kind
		nondet.Go("worker"+strconv.Itoa(i), func() { c20Script(s, ctx, kind) })
	}
	nondet.Quiesce()
	nondet.Assert(s.finished == g, "all-finish")
	l := ctx.Value(limiterKey{}).(*limiter)
	nondet.Assert(len(l.ch) == 0, "capacity-restored")
	// the full capacity is available again without blocking
	for i := 0; i < n; i++ {
		select {
		case l.ch <- struct{}{}:
		default:
			nondet.Assert(false, "capacity-restored")
		}
	}
	nondet.Cover("quiescent")
}

// VerifC20Two: 2 goroutines, limit 1 or 2.
func VerifC20Two() {
	n := 1 + nondet.Choice("limit", 2)
	c20Run(2, n)
}

// VerifC20ReleaseRace: two plain users and one holder that is released from
// another goroutine while it is temporarily released, limit 1 (the smallest
// configuration in which a misplaced token shows).
func VerifC20ReleaseRace() {
	c20Fixed = []int{0, 0, 6}
	c20Run(3, 1)
}

// VerifC20Three: 3 goroutines, limit 1 or 2.
func VerifC20Three() {
	n := 1 + nondet.Choice("limit", 2)
	c20Run(3, n)
}

// VerifC20Cancelled: Acquire on a cancelled context, or on a context without
// limiter, returns although every token is held by someone else.
func VerifC20Cancelled() {
	n := 1 + nondet.Choice("limit", 2)
	ctx := With(context.Background(), n)
	var rels []ReleaseFunc
	full := nondet.Choice("full", 2) == 1
	if full {
		for i := 0; i < n; i++ {
			_, rel := Acquire(ctx)
			rels = append(rels, rel)
		}
	}
	returned := 0
	nondet.Go("cancelled", func() {
		cctx, cancel := context.WithCancel(ctx)
		cancel()
		_, rel := Acquire(cctx)
		returned++
		rel()
		rel()
	})
	nondet.Go("nolimiter", func() {
		_, rel := Acquire(context.Background())
		returned++
		rel()
	})
	nondet.Quiesce()
	nondet.Assert(returned == 2, "cancelled-does-not-block")
	for _, rel := range rels {
		rel()
	}
	l := ctx.Value(limiterKey{}).(*limiter)
	nondet.Assert(len(l.ch) == 0, "capacity-restored")
	nondet.Cover("cancelled-done")
}

func VerifC20Witness() {
	s := &c20State{n: 1}
	ctx := With(context.Background(), 1)
	nondet.Go("w0", func() { c20Script(s, ctx, 2) })
	nondet.Go("w1", func() { c20Script(s, ctx, 0) })
	nondet.Quiesce()
	if s.finished == 2 {
		nondet.Assert(false, "reachability")
	}
}
