//go:build verif
// +build verif

package graphql

// Connection harness (C17, C02, socket clauses of C16): the real
// CreateConnection + conn.ServeJSONSocket run over a fake JSONSocket fed from a
// message script, a hand-built schema whose fields read versioned harness data
// guarded by reactive resources, a recording subscription logger and a writer.

import (
	"fmt"
	"context"
	"encoding/json"
	"errors"
	"strconv"

	"github.com/gorilla/websocket"
	"github.com/samsarahq/thunder/internal/zzverif/nondet"
	"github.com/samsarahq/thunder/reactive"
)

type kRes struct {
	r        *reactive.Resource
	cleanups int
}

type kWorld struct {
	version  int64
	items    []*xItem // list data for delta checks (C02)
	score    map[int64]int64 // data behind the cached (expensive) field Item.w
	slowLive bool            // the live resolver is slow: other goroutines run while it executes
	res      []*kRes
	runs     int            // resolver executions of the live field
	runsAfterClose int
	closed   bool // the connection has closed and everything has settled
	failKind int  // failure of the live resolver: xOK / xFailPlain / xFailSafe
	failOnRun int // 0: never; n: the n-th execution fails
	failMutate bool // the mutation resolver fails
	subs     map[string]int // logger: Subscribe count per id
	unsubs   map[string]int
	live     int
	maxLive  int
	order    []string
}

func (w *kWorld) Subscribe(ctx context.Context, id string, tags map[string]string) {
	w.subs[id]++
	w.live++
	if w.live > w.maxLive {
		w.maxLive = w.live
	}
	w.order = append(w.order, "sub:"+id)
}

func (w *kWorld) Unsubscribe(ctx context.Context, id string) {
	w.unsubs[id]++
	w.live--
	w.order = append(w.order, "unsub:"+id)
}

// kSchema: Query{ live: Int (reactive, may fail), items: [Item] (reactive) }, Mutation{ bump: Int }.
func kSchema(w *kWorld) *Schema {
	parse := func(json interface{}) (interface{}, error) { return nil, nil }
	intT := &Scalar{Type: "int64"}
	register := func(ctx context.Context) {
		kr := &kRes{r: reactive.NewResource()}
		kr.r.Cleanup(func() {
			kr.cleanups++
			nondet.Assert(kr.cleanups <= 1, "cleaned-once")
		})
		w.res = append(w.res, kr)
		reactive.AddDependency(ctx, kr.r, nil)
	}
	liveField := &Field{Type: intT, ParseArguments: parse, Resolve: func(ctx context.Context, source, args interface{}, sel *SelectionSet) (interface{}, error) {
		w.runs++
		if w.closed {
			w.runsAfterClose++
		}
		register(ctx)
		if w.slowLive {
			nondet.Yield()
		}
		if w.failOnRun != 0 && w.runs == w.failOnRun {
			if w.failKind == xFailPanic {
				panic("secret panic")
			}
			return nil, kError(w.failKind)
		}
		return w.version, nil
	}}
	itemT := &Object{Name: "Item", Fields: map[string]*Field{}}
	itemT.Fields["v"] = &Field{Type: intT, ParseArguments: parse, Resolve: func(ctx context.Context, source, args interface{}, sel *SelectionSet) (interface{}, error) {
		return source.(*xItem).V, nil
	}}
	// w: an expensive field — the executor caches its computation per (field, source
	// object, selection) with reactive.Cache; it depends on its own resource
	itemT.Fields["w"] = &Field{Type: intT, ParseArguments: parse, Expensive: true, Resolve: func(ctx context.Context, source, args interface{}, sel *SelectionSet) (interface{}, error) {
		register(ctx)
		return w.score[source.(*xItem).ID], nil
	}}
	itemT.KeyField = &Field{Type: intT, ParseArguments: parse, Resolve: func(ctx context.Context, source, args interface{}, sel *SelectionSet) (interface{}, error) {
		return source.(*xItem).ID, nil
	}}
	itemsField := &Field{Type: &List{Type: itemT}, ParseArguments: parse, Resolve: func(ctx context.Context, source, args interface{}, sel *SelectionSet) (interface{}, error) {
		w.runs++
		if w.closed {
			w.runsAfterClose++
		}
		register(ctx)
		return append([]*xItem{}, w.items...), nil
	}}
	query := &Object{Name: "Query", Fields: map[string]*Field{"live": liveField, "items": itemsField}}
	bump := &Field{Type: intT, ParseArguments: parse, Resolve: func(ctx context.Context, source, args interface{}, sel *SelectionSet) (interface{}, error) {
		if w.failMutate {
			if w.failKind == xFailPanic {
				panic("secret panic")
			}
			return nil, kError(w.failKind)
		}
		w.version++
		kInvalidate(w)
		return w.version, nil
	}}
	mutation := &Object{Name: "Mutation", Fields: map[string]*Field{"bump": bump}}
	return &Schema{Query: query, Mutation: mutation}
}

const kFailUnsafeWrapsSafe = 100 // an unmarked error wrapping a safe one: stays unsafe

func kError(kind int) error {
	switch kind {
	case kFailUnsafeWrapsSafe:
		return fmt.Errorf("secret context: %w", NewSafeError("safe failure"))
	case xFailSafe:
		return NewSafeError("safe failure")
	case xFailClient:
		return NewClientError("client failure")
	case xFailWrapSafe:
		return WrapAsSafeError(errors.New("secret inner"), "wrapped failure")
	}
	return errors.New("secret failure")
}

func kInvalidate(w *kWorld) {
	for _, kr := range append([]*kRes{}, w.res...) {
		kr.r.Strobe()
	}
}

// ---------- the fake socket

type kSocket struct {
	script []*inEnvelope
	pos    int
	out    []outEnvelope
	closed bool
	w      *kWorld
	outAfterClose int
	gate   chan struct{} // the socket stays open until the harness closes the gate
	unsubDone map[string]bool // the server has finished handling an unsubscribe for the id (and no later subscribe)
	updatesAfterUnsub int
}

func (s *kSocket) ReadJSON(v interface{}) error {
	// asking for the next message means the previous one has been processed
	if s.pos > 0 && s.pos <= len(s.script) {
		if prev := s.script[s.pos-1]; prev.Type == "unsubscribe" {
			s.unsubDone[prev.ID] = true
		}
	}
	nondet.Yield()
	if s.pos >= len(s.script) {
		<-s.gate
		return &websocket.CloseError{Code: 1000, Text: "bye"}
	}
	*(v.(*inEnvelope)) = *s.script[s.pos]
	if s.script[s.pos].Type == "subscribe" {
		s.unsubDone[s.script[s.pos].ID] = false
	}
	s.pos++
	return nil
}

func (s *kSocket) WriteJSON(v interface{}) error {
	env := v.(outEnvelope)
	s.out = append(s.out, env)
	if s.w.closed {
		s.outAfterClose++
	}
	if env.Type == "update" && s.unsubDone[env.ID] {
		s.updatesAfterUnsub++
	}
	return nil
}

func (s *kSocket) Close() error {
	s.closed = true
	return nil
}

const (
	kmSubscribe = iota
	kmUnsubscribe
	kmMutate
	kmEcho
	kmUnknown
	kmMalformed
	kmBadQuery
	kmKinds
)

func kEnvelope(kind int, id string, query string) *inEnvelope {
	env := &inEnvelope{ID: id}
	switch kind {
	case kmSubscribe:
		env.Type = "subscribe"
		b, _ := json.Marshal(subscribeMessage{Query: query})
		env.Message = b
	case kmUnsubscribe:
		env.Type = "unsubscribe"
	case kmMutate:
		env.Type = "mutate"
		b, _ := json.Marshal(mutateMessage{Query: "mutation { bump }"})
		env.Message = b
	case kmEcho:
		env.Type = "echo"
	case kmUnknown:
		env.Type = "bogus"
	case kmMalformed:
		env.Type = "subscribe"
		env.Message = json.RawMessage("{")
	case kmBadQuery:
		env.Type = "subscribe"
		b, _ := json.Marshal(subscribeMessage{Query: "{ nope }"})
		env.Message = b
	}
	return env
}

type kRun struct {
	w      *kWorld
	sock   *kSocket
	conn   *conn
	served bool
	early  bool // the socket closes right after the last message, racing with everything in flight
	cancel context.CancelFunc
	mid    func() // extra obligations at quiescence while the socket is still open
}

func kStart(w *kWorld, script []*inEnvelope, maxSubs int) *kRun {
	reactive.WriteThenReadDelay = 0
	w.subs, w.unsubs = map[string]int{}, map[string]int{}
	sock := &kSocket{script: script, w: w, gate: make(chan struct{}), unsubDone: map[string]bool{}}
	ctx, cancel := context.WithCancel(context.Background())
	c := CreateConnection(ctx, sock, kSchema(w),
		WithExecutor(NewExecutor(&xLIFOScheduler{})),
		WithSubscriptionLogger(w),
		WithMinRerunInterval(0),
		WithMaxSubscriptions(maxSubs))
	k := &kRun{w: w, sock: sock, conn: c, cancel: cancel}
	nondet.Go("serve", func() {
		c.ServeJSONSocket()
		k.served = true
	})
	return k
}

// kSettle: wait for quiescence after the socket closed, then check the
// lifecycle obligations.
func (k *kRun) kFinish() {
	w := k.w
	if k.early {
		close(k.sock.gate)
		k.kAfterClose()
		return
	}
	// all messages handled, everything settled, socket still open: a subscription
	// whose last word to the client was a resolver failure has ended by itself
	nondet.Quiesce()
	nondet.Assert(k.sock.pos == len(k.sock.script) && !k.served, "script-consumed")
	last := map[string]outEnvelope{}
	for _, env := range k.sock.out {
		last[env.ID] = env
	}
	k.conn.mu.Lock()
	for _, id := range []string{"a", "b"} {
		env, ok := last[id]
		if !ok || env.Type != "error" {
			continue
		}
		// an error envelope also answers a rejected message (malformed payload,
		// invalid query, duplicate id ...) and carries the same generic text: it is
		// attributed to the subscription only if the id received nothing but one subscribe
		msgs, subscribes := 0, 0
		for _, m := range k.sock.script {
			if m.ID == id {
				msgs++
				if m.Type == "subscribe" && len(m.Message) > 1 {
					subscribes++
				}
			}
		}
		if msgs != 1 || subscribes != 1 {
			continue
		}
		if msg, _ := env.Message.(string); kFailureText(msg) {
			_, present := k.conn.subscriptions[id]
			nondet.Assert(!present && w.unsubs[id] == w.subs[id], "ended-by-failure")
			nondet.Cover("failed-initially")
		}
	}
	k.conn.mu.Unlock()
	if k.mid != nil {
		k.mid()
	}
	close(k.sock.gate)
	k.kAfterClose()
}

func (k *kRun) kAfterClose() {
	w := k.w
	nondet.Quiesce()
	nondet.Assert(k.served, "serve-returns")
	w.closed = true
	// nothing may run or be written for a closed connection, even if data changes
	w.version++
	kInvalidate(w)
	nondet.Quiesce()
	nondet.Assert(w.runsAfterClose == 0, "silent-after-close")
	nondet.Assert(k.sock.outAfterClose == 0, "silent-after-close")
	k.conn.mu.Lock()
	n := len(k.conn.subscriptions)
	k.conn.mu.Unlock()
	nondet.Assert(n == 0, "map-empty-at-close")
	for _, id := range []string{"a", "b"} {
		nondet.Assert(w.unsubs[id] == w.subs[id], "unsub-eq-sub")
	}
	for _, kr := range w.res {
		nondet.Assert(kr.cleanups == 1, "cleaned-once")
	}
	nondet.Cover("closed")
}

func kFailureText(msg string) bool {
	return msg == "Internal server error" || msg == "safe failure" || msg == "client failure" || msg == "wrapped failure"
}

// kExpectedText is what a client may see for a failure of the given kind.
func kExpectedText(kind int) string {
	switch kind {
	case xFailSafe:
		return "safe failure"
	case xFailClient:
		return "client failure"
	case xFailWrapSafe:
		return "wrapped failure"
	}
	return "Internal server error"
}

func kIDs(i int) string { return []string{"a", "b"}[i] }

var _ = strconv.Itoa
