//go:build verif
// +build verif

package graphql

// Shared executor harness: a hand-built schema over harness data, a harness
// query tree that is rendered into thunder's SelectionSet, and an independent
// naive sequential evaluator (the oracle for C01, C14, C16, C19).

import (
	"context"
	"errors"
	"strconv"
	"strings"

	"github.com/samsarahq/thunder/internal/zzverif/nondet"
)

// ---------- data

type xSub struct {
	C  int64
	ID int64
}
type xA struct{ X int64 }
type xB struct{ Y int64 }
type xUnion struct {
	A *xA
	B *xB
}
type xItem struct {
	ID   int64
	V    int64
	E    int64
	Sub  *xSub
	Nums []int64
	U    *xUnion
	Subs []*xSub
}
type xRoot struct {
	Items []*xItem
	One   *xItem
	N     int64
}

// ---------- execution modes of a field

const (
	xPlain = iota
	xExternal
	xExpensive
	xBatch         // Batch, UseBatchFunc true
	xBatchFallback // Batch, UseBatchFunc false -> Resolve
	xBatchParallel // Batch + NumParallelInvocationsFunc = k
	xExternalParallel
	xNumModes
)

// failure kinds of a resolver
const (
	xOK = iota
	xFailPlain
	xFailSafe
	xFailClient
	xFailWrapSafe
	xFailPanic
)

type xFail struct {
	field string // "Item.v" etc.
	id    int64  // fail only for the source with this ID (0: every source)
	kind  int
}

type xConfig struct {
	modes map[string]int // "Item.v" -> mode
	k     int            // NumParallelInvocations result (symbolic)
	fails []xFail
	calls map[string]int // resolver invocation counts
	raised []error       // errors actually raised by resolvers, in order
}

func (c *xConfig) mode(f string) int {
	if c.modes == nil {
		return xPlain
	}
	return c.modes[f]
}

var xErrPlain = errors.New("plain failure")

func (c *xConfig) failure(field string, id int64) error {
	for _, f := range c.fails {
		if f.field != field || (f.id != 0 && f.id != id) {
			continue
		}
		var err error
		switch f.kind {
		case xFailPlain:
			err = errors.New("boom " + field)
		case xFailSafe:
			err = NewSafeError("safe " + field)
		case xFailClient:
			err = NewClientError("client " + field)
		case xFailWrapSafe:
			err = WrapAsSafeError(errors.New("inner "+field), "wrapped "+field)
		case xFailPanic:
			c.raised = append(c.raised, errors.New("panic "+field))
			panic("panic " + field)
		default:
			continue
		}
		c.raised = append(c.raised, err)
		return err
	}
	return nil
}

// ---------- the reference schema description

const (
	xtScalar = iota
	xtEnum
	xtObject
	xtList
	xtUnion
)

type xType struct {
	kind    int
	name    string
	elem    *xType
	fields  map[string]*xField
	members map[string]*xType
	hasKey  bool
	nonNull bool
}

type xField struct {
	name string // qualified, e.g. "Item.v"
	typ  *xType
	id   func(src interface{}) int64
	get  func(src interface{}) interface{}
}

var xEnumNames = []string{"X", "Y"}

func xIDOf(src interface{}) int64 {
	switch s := src.(type) {
	case *xItem:
		return s.ID
	case *xSub:
		if s != nil {
			return s.ID
		}
	}
	return 0
}

type xSchema struct {
	query *xType
	item  *xType
	gql   *Object // thunder's type graph built from the description
	cfg   *xConfig
}

func xBuildSchema(cfg *xConfig) *xSchema {
	if cfg.calls == nil {
		cfg.calls = map[string]int{}
	}
	intT := &xType{kind: xtScalar, name: "int64"}
	enumT := &xType{kind: xtEnum, name: "E"}
	subT := &xType{kind: xtObject, name: "Sub", fields: map[string]*xField{}}
	subT.fields["c"] = &xField{name: "Sub.c", typ: intT, get: func(s interface{}) interface{} { return s.(*xSub).C }}
	// Sub.v is an object (always null) while Item.v is a scalar: the same field name
	// with different types on two object types (shared-fragment validation, C14)
	subT.fields["v"] = &xField{name: "Sub.v", typ: subT, get: func(s interface{}) interface{} { return (*xSub)(nil) }}
	aT := &xType{kind: xtObject, name: "A", fields: map[string]*xField{}}
	aT.fields["x"] = &xField{name: "A.x", typ: intT, get: func(s interface{}) interface{} { return s.(*xA).X }}
	bT := &xType{kind: xtObject, name: "B", fields: map[string]*xField{}}
	bT.fields["y"] = &xField{name: "B.y", typ: intT, get: func(s interface{}) interface{} { return s.(*xB).Y }}
	uT := &xType{kind: xtUnion, name: "U", members: map[string]*xType{"A": aT, "B": bT}}
	itemT := &xType{kind: xtObject, name: "Item", fields: map[string]*xField{}, hasKey: true}
	itemT.fields["id"] = &xField{name: "Item.id", typ: intT, get: func(s interface{}) interface{} { return s.(*xItem).ID }}
	itemT.fields["v"] = &xField{name: "Item.v", typ: intT, get: func(s interface{}) interface{} { return s.(*xItem).V }}
	itemT.fields["e"] = &xField{name: "Item.e", typ: enumT, get: func(s interface{}) interface{} { return s.(*xItem).E }}
	itemT.fields["sub"] = &xField{name: "Item.sub", typ: subT, get: func(s interface{}) interface{} { return s.(*xItem).Sub }}
	itemT.fields["nums"] = &xField{name: "Item.nums", typ: &xType{kind: xtList, elem: intT}, get: func(s interface{}) interface{} { return s.(*xItem).Nums }}
	itemT.fields["u"] = &xField{name: "Item.u", typ: uT, get: func(s interface{}) interface{} { return s.(*xItem).U }}
	itemT.fields["subs"] = &xField{name: "Item.subs", typ: &xType{kind: xtList, elem: subT}, get: func(s interface{}) interface{} { return s.(*xItem).Subs }}
	queryT := &xType{kind: xtObject, name: "Query", fields: map[string]*xField{}}
	queryT.fields["items"] = &xField{name: "Query.items", typ: &xType{kind: xtList, elem: itemT}, get: func(s interface{}) interface{} { return s.(*xRoot).Items }}
	queryT.fields["one"] = &xField{name: "Query.one", typ: itemT, get: func(s interface{}) interface{} { return s.(*xRoot).One }}
	queryT.fields["n"] = &xField{name: "Query.n", typ: intT, get: func(s interface{}) interface{} { return s.(*xRoot).N }}

	sch := &xSchema{query: queryT, item: itemT, cfg: cfg}
	cache := map[*xType]Type{}
	sch.gql = sch.gqlType(queryT, cache).(*Object)
	return sch
}

func (sch *xSchema) gqlType(t *xType, cache map[*xType]Type) Type {
	if g, ok := cache[t]; ok {
		return g
	}
	switch t.kind {
	case xtScalar:
		g := &Scalar{Type: t.name}
		cache[t] = g
		return g
	case xtEnum:
		g := &Enum{Type: t.name, Values: xEnumNames, ReverseMap: map[interface{}]string{int64(0): "X", int64(1): "Y"}}
		cache[t] = g
		return g
	case xtList:
		return &List{Type: sch.gqlType(t.elem, cache)}
	case xtUnion:
		g := &Union{Name: t.name, Types: map[string]*Object{}}
		cache[t] = g
		for _, n := range []string{"A", "B"} {
			g.Types[n] = sch.gqlType(t.members[n], cache).(*Object)
		}
		return g
	}
	g := &Object{Name: t.name, Fields: map[string]*Field{}}
	cache[t] = g
	for _, fname := range xSortedFieldNames(t) {
		g.Fields[fname] = sch.gqlField(t.fields[fname], cache)
	}
	if t.hasKey {
		idf := t.fields["id"]
		g.KeyField = &Field{
			Resolve: func(ctx context.Context, source, args interface{}, sel *SelectionSet) (interface{}, error) {
				return idf.get(source), nil
			},
			Type:           sch.gqlType(idf.typ, cache),
			ParseArguments: func(json interface{}) (interface{}, error) { return nil, nil },
		}
	}
	return g
}

func xSortedFieldNames(t *xType) []string {
	// fixed order so that the interpreter and the native build agree
	order := []string{"id", "v", "e", "sub", "nums", "u", "subs", "items", "one", "n", "c", "x", "y"}
	var out []string
	for _, n := range order {
		if _, ok := t.fields[n]; ok {
			out = append(out, n)
		}
	}
	return out
}

func (sch *xSchema) gqlField(f *xField, cache map[*xType]Type) *Field {
	cfg := sch.cfg
	resolveOne := func(source interface{}) (interface{}, error) {
		cfg.calls[f.name]++
		if err := cfg.failure(f.name, xIDOf(source)); err != nil {
			return nil, err
		}
		return f.get(source), nil
	}
	g := &Field{
		Type:           sch.gqlType(f.typ, cache),
		ParseArguments: func(json interface{}) (interface{}, error) { return nil, nil },
		Resolve: func(ctx context.Context, source, args interface{}, sel *SelectionSet) (interface{}, error) {
			return resolveOne(source)
		},
	}
	switch cfg.mode(f.name) {
	case xExternal:
		g.External = true
	case xExpensive:
		g.Expensive = true
	case xExternalParallel:
		g.External = true
		g.NumParallelInvocationsFunc = func(ctx context.Context, n int) int { return cfg.k }
	case xBatch, xBatchFallback, xBatchParallel:
		g.Batch = true
		use := cfg.mode(f.name) != xBatchFallback
		g.UseBatchFunc = func(context.Context) bool { return use }
		g.BatchResolver = func(ctx context.Context, sources []interface{}, args interface{}, sel *SelectionSet) ([]interface{}, error) {
			out := make([]interface{}, len(sources))
			for i, s := range sources {
				v, err := resolveOne(s)
				if err != nil {
					return nil, err
				}
				out[i] = v
			}
			return out, nil
		}
		if cfg.mode(f.name) == xBatchParallel {
			g.NumParallelInvocationsFunc = func(ctx context.Context, n int) int { return cfg.k }
		}
	}
	return g
}

// ---------- the harness query tree

const (
	xnField = iota
	xnInline
	xnSpread // spread of a named fragment (only through xRunText)
)

type xFragDef struct {
	name string
	on   string
	subs []*xNode
}

type xNode struct {
	kind    int
	name    string
	alias   string
	on      string
	subs    []*xNode
	hasSubs bool
	frag    *xFragDef
	// directive conditions (C19); nil = directive absent
	skip    *bool
	include *bool
	// how the conditions are written in query text: variable names (else literals)
	skipVar    string
	includeVar string
	// order in which both directives are written (true: include first)
	includeFirst bool
}

func xSpread(f *xFragDef) *xNode { return &xNode{kind: xnSpread, frag: f, on: f.on, subs: f.subs, hasSubs: true} }

func xF(name string, subs ...*xNode) *xNode {
	return &xNode{kind: xnField, name: name, alias: name, subs: subs, hasSubs: len(subs) > 0}
}

func xAs(alias string, n *xNode) *xNode {
	n.alias = alias
	return n
}

func xOn(typ string, subs ...*xNode) *xNode {
	return &xNode{kind: xnInline, on: typ, subs: subs, hasSubs: true}
}

func xDirectives(n *xNode) []*Directive {
	var ds []*Directive
	if n.skip != nil {
		ds = append(ds, &Directive{Name: "skip", Args: map[string]interface{}{"if": *n.skip}})
	}
	if n.include != nil {
		ds = append(ds, &Directive{Name: "include", Args: map[string]interface{}{"if": *n.include}})
	}
	return ds
}

// xBuildSelectionSet renders harness nodes into thunder's structures (what
// graphql.Parse produces for inline fragments and fields).
func xBuildSelectionSet(nodes []*xNode) *SelectionSet {
	ss := &SelectionSet{}
	for _, n := range nodes {
		switch n.kind {
		case xnField:
			sel := &Selection{Name: n.name, Alias: n.alias, UnparsedArgs: map[string]interface{}{}, Directives: xDirectives(n)}
			if n.hasSubs {
				sel.SelectionSet = xBuildSelectionSet(n.subs)
			}
			ss.Selections = append(ss.Selections, sel)
		case xnInline:
			ss.Fragments = append(ss.Fragments, &Fragment{On: n.on, SelectionSet: xBuildSelectionSet(n.subs), Directives: xDirectives(n)})
		}
	}
	return ss
}

// ---------- the reference evaluator (naive, sequential)

func xIncluded(n *xNode) bool {
	if n.skip != nil && *n.skip {
		return false
	}
	if n.include != nil && !*n.include {
		return false
	}
	return true
}

type xMerged struct {
	alias string
	name  string
	subs  []*xNode
}

// xCollect: alias -> merged selection, first-seen order; fragments apply when
// their type condition equals the concrete type.
func xCollect(nodes []*xNode, typeName string, out *[]*xMerged) {
	for _, n := range nodes {
		if !xIncluded(n) {
			continue
		}
		switch n.kind {
		case xnField:
			var m *xMerged
			for _, e := range *out {
				if e.alias == n.alias {
					m = e
				}
			}
			if m == nil {
				m = &xMerged{alias: n.alias, name: n.name}
				*out = append(*out, m)
			}
			m.subs = append(m.subs, n.subs...)
		case xnInline, xnSpread:
			if n.on == typeName {
				xCollect(n.subs, typeName, out)
			}
		}
	}
}

type xRefError struct {
	err  error
	path []string // outermost first
}

// xEval evaluates nodes against src of type t. Errors: every failing resolver
// reachable in the query contributes one expected (error, path) pair.
func (sch *xSchema) xEval(t *xType, src interface{}, nodes []*xNode, path []string, errs *[]xRefError) interface{} {
	switch t.kind {
	case xtScalar:
		return src
	case xtEnum:
		return xEnumNames[src.(int64)]
	case xtList:
		switch l := src.(type) {
		case []*xItem:
			out := make([]interface{}, len(l))
			for i, e := range l {
				out[i] = sch.xEval(t.elem, e, nodes, append(append([]string{}, path...), strconv.Itoa(i)), errs)
			}
			return out
		case []int64:
			out := make([]interface{}, len(l))
			for i, e := range l {
				out[i] = e
			}
			return out
		case []*xSub:
			out := make([]interface{}, len(l))
			for i, e := range l {
				out[i] = sch.xEval(t.elem, e, nodes, append(append([]string{}, path...), strconv.Itoa(i)), errs)
			}
			return out
		}
		panic("xEval: list")
	case xtUnion:
		u := src.(*xUnion)
		if u == nil {
			return nil
		}
		switch {
		case u.A != nil:
			return sch.xEval(t.members["A"], u.A, nodes, path, errs)
		case u.B != nil:
			return sch.xEval(t.members["B"], u.B, nodes, path, errs)
		}
		return nil
	}
	// object
	switch s := src.(type) {
	case *xItem:
		if s == nil {
			return nil
		}
	case *xSub:
		if s == nil {
			return nil
		}
	}
	var merged []*xMerged
	xCollect(nodes, t.name, &merged)
	out := map[string]interface{}{}
	for _, m := range merged {
		if m.name == "__typename" {
			out[m.alias] = t.name
			continue
		}
		f := t.fields[m.name]
		p := append(append([]string{}, path...), m.alias)
		if err := sch.refFailure(f.name, xIDOf(src)); err != nil {
			*errs = append(*errs, xRefError{err: err, path: p})
			continue
		}
		out[m.alias] = sch.xEval(f.typ, f.get(src), m.subs, p, errs)
	}
	if t.hasKey {
		out["__key"] = t.fields["id"].get(src)
	}
	return out
}

// refFailure: which failure (if any) the configuration assigns to (field, id).
func (sch *xSchema) refFailure(field string, id int64) error {
	for _, f := range sch.cfg.fails {
		if f.field == field && (f.id == 0 || f.id == id) && f.kind != xOK {
			return errors.New(field)
		}
	}
	return nil
}

// ---------- schedulers (WorkScheduler is a public extension point)

// xChoiceScheduler runs pending units sequentially in an order chosen by
// nondet.Choice: every order while at most `width` units are pending, FIFO
// beyond.
type xChoiceScheduler struct {
	width int
	name  string
	steps int
}

func (s *xChoiceScheduler) Run(resolver UnitResolver, startingUnits ...*WorkUnit) {
	pending := append([]*WorkUnit{}, startingUnits...)
	for len(pending) > 0 {
		i := 0
		if len(pending) > 1 && len(pending) <= s.width {
			i = nondet.Choice(s.name+".pick"+strconv.Itoa(s.steps), len(pending))
		}
		s.steps++
		u := pending[i]
		pending = append(pending[:i], pending[i+1:]...)
		pending = append(pending, resolver(u)...)
	}
}

// xLIFOScheduler: depth-first order.
type xLIFOScheduler struct{}

func (s *xLIFOScheduler) Run(resolver UnitResolver, startingUnits ...*WorkUnit) {
	pending := append([]*WorkUnit{}, startingUnits...)
	for len(pending) > 0 {
		u := pending[len(pending)-1]
		pending = pending[:len(pending)-1]
		pending = append(pending, resolver(u)...)
	}
}

// ---------- running a query through thunder

type xResult struct {
	text    string
	prepErr error
	val     interface{}
	err     error
}

func (sch *xSchema) xRun(root *xRoot, nodes []*xNode, sched WorkScheduler) xResult {
	q := &Query{Name: "q", Kind: "query", SelectionSet: xBuildSelectionSet(nodes)}
	ctx := context.Background()
	if err := PrepareQuery(ctx, sch.gql, q.SelectionSet); err != nil {
		return xResult{prepErr: err}
	}
	val, err := NewExecutor(sched).Execute(ctx, sch.gql, root, q)
	return xResult{val: val, err: err}
}

// ---------- rendering to query text (for graphql.Parse)

func xRenderDirectives(n *xNode, sb *strings.Builder) {
	one := func(name string, v *bool, varName string) {
		if v == nil {
			return
		}
		sb.WriteString(" @" + name + "(if: ")
		if varName != "" {
			sb.WriteString("$" + varName)
		} else if *v {
			sb.WriteString("true")
		} else {
			sb.WriteString("false")
		}
		sb.WriteString(")")
	}
	if n.includeFirst {
		one("include", n.include, n.includeVar)
		one("skip", n.skip, n.skipVar)
	} else {
		one("skip", n.skip, n.skipVar)
		one("include", n.include, n.includeVar)
	}
}

func xRenderNodes(nodes []*xNode, sb *strings.Builder, frags *[]*xFragDef) {
	sb.WriteString("{ ")
	for _, n := range nodes {
		switch n.kind {
		case xnField:
			if n.alias != n.name {
				sb.WriteString(n.alias + ": ")
			}
			sb.WriteString(n.name)
			xRenderDirectives(n, sb)
			if n.hasSubs {
				sb.WriteString(" ")
				xRenderNodes(n.subs, sb, frags)
			}
		case xnInline:
			sb.WriteString("... on " + n.on)
			xRenderDirectives(n, sb)
			sb.WriteString(" ")
			xRenderNodes(n.subs, sb, frags)
		case xnSpread:
			sb.WriteString("..." + n.frag.name)
			xRenderDirectives(n, sb)
			seen := false
			for _, f := range *frags {
				if f == n.frag {
					seen = true
				}
			}
			if !seen {
				*frags = append(*frags, n.frag)
			}
		}
		sb.WriteString(" ")
	}
	sb.WriteString("}")
}

// xRender renders a whole query document; variables used by directives are
// declared as Boolean variables.
// xVarDefaults: variables declared with a default value (and then not supplied).
var xVarDefaults map[string]bool

func xRender(nodes []*xNode, varNames []string) string {
	var sb strings.Builder
	if len(varNames) > 0 {
		sb.WriteString("query q(")
		for i, v := range varNames {
			if i > 0 {
				sb.WriteString(", ")
			}
			sb.WriteString("$" + v + ": Boolean")
			if d, ok := xVarDefaults[v]; ok {
				if d {
					sb.WriteString(" = true")
				} else {
					sb.WriteString(" = false")
				}
			}
		}
		sb.WriteString(") ")
	}
	var frags []*xFragDef
	xRenderNodes(nodes, &sb, &frags)
	for i := 0; i < len(frags); i++ {
		f := frags[i]
		sb.WriteString(" fragment " + f.name + " on " + f.on + " ")
		xRenderNodes(f.subs, &sb, &frags)
	}
	return sb.String()
}

// xRunText: the query goes through graphql.Parse (real lexer and parser).
func (sch *xSchema) xRunText(root *xRoot, nodes []*xNode, vars map[string]interface{}, sched WorkScheduler) xResult {
	var varNames []string
	for _, k := range []string{"s0", "s1", "s2", "s3", "i0", "i1", "i2", "i3"} {
		_, isDefault := xVarDefaults[k]
		if _, ok := vars[k]; ok || isDefault {
			varNames = append(varNames, k)
		}
	}
	text := xRender(nodes, varNames)
	q, err := Parse(text, vars)
	if err != nil {
		return xResult{prepErr: err, text: text}
	}
	ctx := context.Background()
	if err := PrepareQuery(ctx, sch.gql, q.SelectionSet); err != nil {
		return xResult{prepErr: err, text: text}
	}
	val, err := NewExecutor(sched).Execute(ctx, sch.gql, root, q)
	return xResult{val: val, err: err, text: text}
}

// ---------- data generators

func xMkItem(name string, id int64, subNil bool, u int, nums int) *xItem {
	it := &xItem{ID: id, V: nondet.Int64(name + ".v"), E: int64(nondet.Choice(name+".e", 2))}
	if !subNil {
		it.Sub = &xSub{C: nondet.Int64(name + ".c")}
	}
	switch u {
	case 1:
		it.U = &xUnion{A: &xA{X: nondet.Int64(name + ".x")}}
	case 2:
		it.U = &xUnion{B: &xB{Y: nondet.Int64(name + ".y")}}
	}
	for i := 0; i < nums; i++ {
		it.Nums = append(it.Nums, nondet.Int64(name+".num"+strconv.Itoa(i)))
	}
	return it
}

// xFixedRoot: two items of different shape and a non-nil "one".
func xFixedRoot() *xRoot {
	r := &xRoot{
		Items: []*xItem{xMkItem("i1", 1, false, 1, 2), xMkItem("i2", 2, true, 2, 0)},
		One:   xMkItem("one", 3, false, 2, 1),
		N:     nondet.Int64("n"),
	}
	r.Items[0].Subs = []*xSub{{C: nondet.Int64("i1.s0"), ID: 11}, {C: nondet.Int64("i1.s1"), ID: 12}}
	r.Items[1].Subs = []*xSub{{C: nondet.Int64("i2.s0"), ID: 21}, {C: nondet.Int64("i2.s1"), ID: 22}}
	return r
}
