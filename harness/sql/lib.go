//go:build verif
// +build verif

package sqlgen

// Shared sqlgen harness: database/sql is replaced by recording stubs; a small
// evaluator for exactly the SQL thunder emits judges what a statement can touch.

import (
	"context"
	"database/sql"
	"strings"

	"github.com/samsarahq/thunder/internal/zzverif/nondet"
)

type zUser struct {
	Id   int64 `sql:",primary"`
	Name string
	Team int64
	Age  *int64
	City string
}

type zStmt struct {
	kind   string // query, exec, queryrow, begin, commit, rollback
	clause string
	args   []interface{}
	inTx   bool
}

type zDriver struct {
	stmts     []zStmt
	table     []*zUser // rows visible to ParseRows
	lastQuery *zStmt
	failExec  bool
	byRows    map[*sql.Rows]*zStmt // statement that produced a result set (concurrent queries)
}

var zDrv *zDriver

func zReset() *zDriver {
	zDrv = &zDriver{}
	return zDrv
}

// ---- stubs for database/sql (installed by the check's stub table)

func VerifStubDBQueryContext(db *sql.DB, ctx context.Context, query string, args ...interface{}) (*sql.Rows, error) {
	zDrv.stmts = append(zDrv.stmts, zStmt{kind: "query", clause: query, args: args})
	zDrv.lastQuery = &zDrv.stmts[len(zDrv.stmts)-1]
	rows := &sql.Rows{}
	if zDrv.byRows == nil {
		zDrv.byRows = map[*sql.Rows]*zStmt{}
	}
	zDrv.byRows[rows] = &zStmt{kind: "query", clause: query, args: args}
	return rows, nil
}

func VerifStubDBExecContext(db *sql.DB, ctx context.Context, query string, args ...interface{}) (sql.Result, error) {
	zDrv.stmts = append(zDrv.stmts, zStmt{kind: "exec", clause: query, args: args})
	return nil, nil
}

func VerifStubDBQueryRowContext(db *sql.DB, ctx context.Context, query string, args ...interface{}) *sql.Row {
	zDrv.stmts = append(zDrv.stmts, zStmt{kind: "queryrow", clause: query, args: args})
	return &sql.Row{}
}

func VerifStubTxQueryContext(tx *sql.Tx, ctx context.Context, query string, args ...interface{}) (*sql.Rows, error) {
	zDrv.stmts = append(zDrv.stmts, zStmt{kind: "query", clause: query, args: args, inTx: true})
	zDrv.lastQuery = &zDrv.stmts[len(zDrv.stmts)-1]
	return &sql.Rows{}, nil
}

func VerifStubTxExecContext(tx *sql.Tx, ctx context.Context, query string, args ...interface{}) (sql.Result, error) {
	zDrv.stmts = append(zDrv.stmts, zStmt{kind: "exec", clause: query, args: args, inTx: true})
	return nil, nil
}

func VerifStubTxQueryRowContext(tx *sql.Tx, ctx context.Context, query string, args ...interface{}) *sql.Row {
	zDrv.stmts = append(zDrv.stmts, zStmt{kind: "queryrow", clause: query, args: args, inTx: true})
	return &sql.Row{}
}

func VerifStubBeginTx(db *sql.DB, ctx context.Context, opts *sql.TxOptions) (*sql.Tx, error) {
	zDrv.stmts = append(zDrv.stmts, zStmt{kind: "begin"})
	return &sql.Tx{}, nil
}

func VerifStubCommit(tx *sql.Tx) error {
	zDrv.stmts = append(zDrv.stmts, zStmt{kind: "commit"})
	return nil
}

func VerifStubRollback(tx *sql.Tx) error {
	zDrv.stmts = append(zDrv.stmts, zStmt{kind: "rollback"})
	return nil
}

func VerifStubRowsClose(r *sql.Rows) error { return nil }

func VerifStubRowScan(r *sql.Row, dest ...interface{}) error {
	if len(dest) == 1 {
		if p, ok := dest[0].(*int64); ok {
			*p = 0
		}
	}
	return nil
}

// VerifStubParseRows evaluates the last recorded SELECT against the harness
// table and returns the matching rows (as ParseRows would from the driver).
func VerifStubParseRows(s *Schema, query *SelectQuery, res *sql.Rows) ([]interface{}, error) {
	st := zDrv.lastQuery
	if own, ok := zDrv.byRows[res]; ok {
		st = own
		delete(zDrv.byRows, res)
	}
	where := zWhereOf(st.clause)
	e, ok := zParseWhere(where)
	nondet.Assert(ok, "sql-understood")
	var out []interface{}
	for _, r := range zDrv.table {
		if e == nil || zTruth(e.eval(r, st.args)) {
			out = append(out, r)
		}
	}
	if j := strings.Index(st.clause, " LIMIT "); j >= 0 {
		n := 0
		for _, ch := range st.clause[j+len(" LIMIT "):] {
			if ch < '0' || ch > '9' {
				break
			}
			n = n*10 + int(ch-'0')
		}
		if len(out) > n {
			out = out[:n]
		}
	}
	// the rows were read at this instant; the answer takes time to travel back
	// (a database round trip is a blocking operation: other goroutines may run)
	nondet.Yield()
	return out, nil
}

// ---- a tiny SQL reader for the clauses thunder emits

func zWhereOf(clause string) string {
	i := strings.Index(clause, " WHERE ")
	if i < 0 {
		return ""
	}
	w := clause[i+len(" WHERE "):]
	for _, suffix := range []string{" ORDER BY ", " LIMIT ", " FOR UPDATE"} {
		if j := strings.Index(w, suffix); j >= 0 {
			w = w[:j]
		}
	}
	return w
}

type zExpr struct {
	op    string // or, and, eq, is, in
	kids  []*zExpr
	col   string
	argIx []int
}

type zLexer struct {
	toks []string
	pos  int
	narg int
}

func zLex(s string) []string {
	var toks []string
	i := 0
	for i < len(s) {
		c := s[i]
		switch {
		case c == ' ':
			i++
		case c == '(' || c == ')' || c == ',' || c == '?' || c == '=':
			toks = append(toks, string(c))
			i++
		default:
			j := i
			for j < len(s) && !strings.ContainsRune(" (),?=", rune(s[j])) {
				j++
			}
			toks = append(toks, s[i:j])
			i = j
		}
	}
	return toks
}

func (l *zLexer) peek() string {
	if l.pos < len(l.toks) {
		return l.toks[l.pos]
	}
	return ""
}

func (l *zLexer) next() string {
	t := l.peek()
	l.pos++
	return t
}

func zParseWhere(s string) (*zExpr, bool) {
	if s == "" {
		return nil, true
	}
	l := &zLexer{toks: zLex(s)}
	e, ok := l.parseOr()
	if !ok || l.pos != len(l.toks) {
		return nil, false
	}
	return e, true
}

func (l *zLexer) parseOr() (*zExpr, bool) {
	first, ok := l.parseAnd()
	if !ok {
		return nil, false
	}
	kids := []*zExpr{first}
	for l.peek() == "OR" {
		l.next()
		k, ok := l.parseAnd()
		if !ok {
			return nil, false
		}
		kids = append(kids, k)
	}
	if len(kids) == 1 {
		return first, true
	}
	return &zExpr{op: "or", kids: kids}, true
}

func (l *zLexer) parseAnd() (*zExpr, bool) {
	first, ok := l.parseAtom()
	if !ok {
		return nil, false
	}
	kids := []*zExpr{first}
	for l.peek() == "AND" {
		l.next()
		k, ok := l.parseAtom()
		if !ok {
			return nil, false
		}
		kids = append(kids, k)
	}
	if len(kids) == 1 {
		return first, true
	}
	return &zExpr{op: "and", kids: kids}, true
}

func (l *zLexer) parseAtom() (*zExpr, bool) {
	if l.peek() == "(" {
		l.next()
		e, ok := l.parseOr()
		if !ok || l.next() != ")" {
			return nil, false
		}
		return e, true
	}
	col := l.next()
	if col == "" {
		return nil, false
	}
	switch l.next() {
	case "=":
		if l.next() != "?" {
			return nil, false
		}
		l.narg++
		return &zExpr{op: "eq", col: col, argIx: []int{l.narg - 1}}, true
	case "IS":
		if l.next() != "?" {
			return nil, false
		}
		l.narg++
		return &zExpr{op: "is", col: col, argIx: []int{l.narg - 1}}, true
	case "IN":
		if l.next() != "(" {
			return nil, false
		}
		e := &zExpr{op: "in", col: col}
		for {
			if l.next() != "?" {
				return nil, false
			}
			l.narg++
			e.argIx = append(e.argIx, l.narg-1)
			t := l.next()
			if t == ")" {
				break
			}
			if t != "," {
				return nil, false
			}
		}
		return e, true
	}
	return nil, false
}

// three-valued SQL truth: 0 false, 1 true, 2 unknown (NULL)
const (
	zF = 0
	zT = 1
	zU = 2
)

func zTruth(v int) bool { return v == zT }

// zColumn: the row's column as a driver-level value: int64, string or nil.
func zColumn(r *zUser, col string) (interface{}, bool) {
	switch col {
	case "id":
		return r.Id, true
	case "name":
		return r.Name, true
	case "team":
		return r.Team, true
	case "city":
		return r.City, true
	case "age":
		if r.Age == nil {
			return nil, true
		}
		return *r.Age, true
	}
	return nil, false
}

// zArgValue: a statement argument as the driver would see it (pointers
// dereferenced, Go integer kinds widened to int64).
func zArgValue(a interface{}) interface{} {
	switch v := a.(type) {
	case nil:
		return nil
	case int64:
		return v
	case int:
		return int64(v)
	case int32:
		return int64(v)
	case string:
		return v
	case *int64:
		if v == nil {
			return nil
		}
		return *v
	case *string:
		if v == nil {
			return nil
		}
		return *v
	}
	return a
}

func zSQLEq(cv, av interface{}) int {
	if cv == nil || av == nil {
		return zU
	}
	switch c := cv.(type) {
	case int64:
		if a, ok := av.(int64); ok {
			if c == a {
				return zT
			}
			return zF
		}
	case string:
		if a, ok := av.(string); ok {
			if c == a {
				return zT
			}
			return zF
		}
	}
	return zF
}

func (e *zExpr) eval(r *zUser, args []interface{}) int {
	switch e.op {
	case "or":
		res := zF
		for _, k := range e.kids {
			switch k.eval(r, args) {
			case zT:
				return zT
			case zU:
				res = zU
			}
		}
		return res
	case "and":
		res := zT
		for _, k := range e.kids {
			switch k.eval(r, args) {
			case zF:
				return zF
			case zU:
				res = zU
			}
		}
		return res
	}
	cv, ok := zColumn(r, e.col)
	if !ok {
		return zF
	}
	switch e.op {
	case "eq":
		return zSQLEq(cv, zArgValue(args[e.argIx[0]]))
	case "is":
		av := zArgValue(args[e.argIx[0]])
		if av == nil {
			if cv == nil {
				return zT
			}
			return zF
		}
		return zSQLEq(cv, av)
	case "in":
		res := zF
		for _, ix := range e.argIx {
			switch zSQLEq(cv, zArgValue(args[ix])) {
			case zT:
				return zT
			case zU:
				res = zU
			}
		}
		return res
	}
	return zF
}

// zInsertShape: columns and number of rows of an INSERT / upsert statement.
func zInsertShape(clause string) (cols []string, nrows int, ok bool) {
	if !strings.HasPrefix(clause, "INSERT INTO ") {
		return nil, 0, false
	}
	i := strings.Index(clause, "(")
	j := strings.Index(clause, ")")
	if i < 0 || j < i {
		return nil, 0, false
	}
	for _, c := range strings.Split(clause[i+1:j], ",") {
		cols = append(cols, strings.TrimSpace(c))
	}
	rest := clause[j+1:]
	if k := strings.Index(rest, " ON DUPLICATE"); k >= 0 {
		rest = rest[:k]
	}
	nrows = strings.Count(rest, "(")
	return cols, nrows, true
}

func zNewDB(schema *Schema) *DB {
	return NewDB(&sql.DB{}, schema)
}

func zSchema() *Schema {
	s := NewSchema()
	s.MustRegisterType("users", UniqueId, zUser{})
	return s
}
