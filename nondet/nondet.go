// Package nondet is the harness API. Under symgo every function here is an
// intrinsic (inputs become SMT variables, Assert becomes a solver query). This
// file is the NATIVE implementation used to replay solver-produced inputs
// against the really compiled code: values are read, by name, from the JSON file
// named by VERIF_REPLAY.
package nondet

import (
	"encoding/json"
	"fmt"
	"io/ioutil"
	"os"
	"reflect"
	"runtime"
	"strconv"
	"sync"
	"time"
)

type replayCase map[string]string

var (
	mu      sync.Mutex
	cur     replayCase
	nameSeq map[string]int
	missing []string
)

func uniqueName(name string) string {
	n := nameSeq[name]
	nameSeq[name] = n + 1
	if n == 0 {
		return name
	}
	return fmt.Sprintf("%s#%d", name, n)
}

func lookup(name string) (string, bool) {
	mu.Lock()
	defer mu.Unlock()
	name = uniqueName(name)
	v, ok := cur[name]
	if !ok {
		missing = append(missing, name)
	}
	return v, ok
}

func getInt(name string) int64 {
	v, ok := lookup(name)
	if !ok {
		return 0
	}
	i, err := strconv.ParseInt(v, 10, 64)
	if err != nil {
		u, _ := strconv.ParseUint(v, 10, 64)
		return int64(u)
	}
	return i
}

func Int64(name string) int64   { return getInt(name) }
func Int(name string) int       { return int(getInt(name)) }
func Int32(name string) int32   { return int32(getInt(name)) }
func Int16(name string) int16   { return int16(getInt(name)) }
func Int8(name string) int8     { return int8(getInt(name)) }
func Uint64(name string) uint64 { return uint64(getInt(name)) }
func Uint(name string) uint     { return uint(getInt(name)) }
func Uint32(name string) uint32 { return uint32(getInt(name)) }
func Uint16(name string) uint16 { return uint16(getInt(name)) }
func Uint8(name string) uint8   { return uint8(getInt(name)) }

func Bool(name string) bool {
	v, _ := lookup(name)
	return v == "true" || v == "1"
}

func Float64FromInt(v int64) float64 { return float64(v) }

type assumeFailed struct{}

func IntRange(name string, lo, hi int) int {
	v := int(getInt(name))
	if v < lo || v > hi {
		panic(assumeFailed{})
	}
	return v
}

func StringFrom(name string, opts ...string) string {
	v, ok := lookup(name)
	if !ok {
		return opts[0]
	}
	for _, o := range opts {
		if o == v {
			return o
		}
	}
	return opts[0]
}

func Choice(name string, n int) int {
	v := int(getInt(name))
	if v < 0 || v >= n {
		return 0
	}
	return v
}

func Assume(c bool) {
	if !c {
		panic(assumeFailed{})
	}
}

type AssertFailed struct{ Label, Class string }

func Assert(c bool, label string) {
	if !c {
		panic(AssertFailed{label, ""})
	}
}

func AssertClass(c bool, label, class string) {
	if !c {
		panic(AssertFailed{label, class})
	}
}

func Cover(label string) {}

// Symbolic reports whether inputs are solver variables (false natively).
func Symbolic() bool { return false }

// Interpreted reports whether the code runs inside symgo.
func Interpreted() bool { return false }

func And(a, b bool) bool     { return a && b }
func Or(a, b bool) bool      { return a || b }
func Not(a bool) bool        { return !a }
func Implies(a, b bool) bool { return !a || b }
func IteInt(c bool, a, b int) int {
	if c {
		return a
	}
	return b
}

func DeepEq(a, b interface{}) bool { return reflect.DeepEqual(a, b) }

// Quiesce waits until the other goroutines have (very probably) stopped
// making progress. Natively this is a heuristic; schedules are only decided
// under symgo.
func Quiesce() {
	for i := 0; i < 20; i++ {
		runtime.Gosched()
		time.Sleep(2 * time.Millisecond)
	}
}

func Yield() { runtime.Gosched() }

func Go(name string, f func()) { go f() }

func Trace(s string) {}

func Show(v interface{}) string { return fmt.Sprintf("%v", v) }

func NumThreads() int     { return runtime.NumGoroutine() }
func BlockedThreads() int { return 0 }

// RunReplays runs entry once per case of the VERIF_REPLAY file and prints one
// line per case: "VERIF-CASE <i>: ok | ASSERT <label> | PANIC <msg> | ASSUME".
func RunReplays(entry func()) {
	path := os.Getenv("VERIF_REPLAY")
	b, err := ioutil.ReadFile(path)
	if err != nil {
		fmt.Printf("VERIF-ERROR: %v\n", err)
		return
	}
	var cases []replayCase
	if err := json.Unmarshal(b, &cases); err != nil {
		fmt.Printf("VERIF-ERROR: %v\n", err)
		return
	}
	for i, c := range cases {
		mu.Lock()
		cur = c
		nameSeq = map[string]int{}
		missing = nil
		mu.Unlock()
		res := runOne(entry)
		fmt.Printf("VERIF-CASE %d: %s\n", i, res)
	}
}

func runOne(entry func()) (res string) {
	done := make(chan string, 1)
	go func() {
		defer func() {
			if r := recover(); r != nil {
				switch x := r.(type) {
				case AssertFailed:
					done <- "ASSERT " + x.Label
				case assumeFailed:
					done <- "ASSUME"
				default:
					done <- fmt.Sprintf("PANIC %v", r)
				}
				return
			}
			done <- "ok"
		}()
		entry()
	}()
	select {
	case r := <-done:
		return r
	case <-time.After(20 * time.Second):
		return "TIMEOUT"
	}
}
