#!/bin/sh
# usage: tools/calibrate_thorough.sh [cap seconds] — runs every thorough entry on its own, prints wall time and status
CAP="${1:-1500}"
cd "$(dirname "$0")/.." || exit 2
python3 - <<'PY' > /tmp/th_entries.$$
import json,glob
for f in sorted(glob.glob('harness/C*/check.json')):
    d=json.load(open(f))
    for e in d['entries']:
        if e.get('witness'): continue
        t=e.get('tiers')
        if t is None or 'thorough' in t:
            print(d['property'], e['name'])
PY
while read id name; do
  S=$(date +%s)
  VERIF_TIME_CAP_S=$CAP VERIF_NO_EVIDENCE=1 VERIF_NO_NATIVE=1 bin/symgo check -entry "$name" "harness/$id/check.json" thorough > /tmp/th_one.$$ 2>&1; rc=$?
  E=$(date +%s)
  echo "$id $name exit=$rc wall=$((E-S))s $(grep -a "^\[$id\] $name" /tmp/th_one.$$ | sed 's/.*paths=/paths=/' | cut -c1-90) $(grep -a -c '^INCONCLUSIVE' /tmp/th_one.$$) inconclusive $(grep -a -c '^VIOLATION' /tmp/th_one.$$) violations"
done < /tmp/th_entries.$$
rm -f /tmp/th_entries.$$ /tmp/th_one.$$
