#!/bin/sh
# usage: confirm_seed.sh <worktree> <mN> <property id> <demo package dir> <test packages...>
# Confirms, in the scratch worktree: patch applies+builds, existing tests pass with it,
# demo fails with it and passes without. Then stores it under /verif/seeded/<id>/<mN>/.
WT="$1"; M="$2"; ID="$3"; DEMODIR="$4"; shift 4; PKGS="$*"
export GOFLAGS=-mod=mod GOPROXY=off GOSUMDB=off GOTOOLCHAIN=local
cd "$WT" || exit 2
git checkout -q -- . ; rm -f "$DEMODIR"/zz_demo_test.go
OUT="$WT/_out/$M"
git apply "$OUT/patch.diff" || { echo "APPLY FAILED"; exit 3; }
go build ./... || { echo "BUILD FAILED"; git checkout -q -- .; exit 3; }
echo "--- existing tests with patch"; go test -vet=off -count=1 $PKGS 2>&1 | grep -v "no test files" | tail -8
T1=$(go test -vet=off -count=1 $PKGS 2>&1 | grep -c "^FAIL")
cp "$OUT/demo_test.go" "$DEMODIR/zz_demo_test.go"
echo "--- demo with patch (must fail)"; go test -vet=off -count=1 -run "${RUNPAT:-Demo}" "./$DEMODIR" 2>&1 | tail -4
go test -vet=off -count=1 -run "${RUNPAT:-Demo}" "./$DEMODIR" >/dev/null 2>&1; WITH=$?
git checkout -q -- .
echo "--- demo without patch (must pass)"; go test -vet=off -count=1 -run "${RUNPAT:-Demo}" "./$DEMODIR" 2>&1 | tail -3
go test -vet=off -count=1 -run "${RUNPAT:-Demo}" "./$DEMODIR" >/dev/null 2>&1; WITHOUT=$?
rm -f "$DEMODIR/zz_demo_test.go"
echo "existing-test FAIL lines with patch: $T1; demo exit with patch: $WITH; without: $WITHOUT"
if [ "$WITH" != 0 ] && [ "$WITHOUT" = 0 ]; then
  D=/verif/seeded/$ID/$M; mkdir -p "$D"; cp "$OUT/patch.diff" "$OUT/demo_test.go" "$OUT/notes.md" "$D/"; echo "STORED $D (existing-tests-fail-lines=$T1)"
else echo "NOT CONFIRMED"; fi
