#!/usr/bin/env python3
"""Regenerates /verif/MANIFEST.json from tools/checks.json (claims) — keeps it schema-valid."""
import json, os, sys
VD = os.path.dirname(os.path.dirname(os.path.abspath(__file__)))
table = json.load(open(os.path.join(VD, "tools/checks.json")))
props = [json.loads(l)["id"] for l in open(os.path.join(VD, "properties.jsonl")) if l.strip()]
checks, na = [], []
for pid in props:
    c = table["checks"].get(pid)
    if c is None:
        na.append({"property_id": pid, "reason": table["not_applicable"].get(pid, "no check built yet with the solver-based technique; see DESIGN.md section 4")})
        continue
    checks.append({
        "property_id": pid,
        "quick_cmd": "./check.sh %s quick" % pid,
        "thorough_cmd": "./check.sh %s thorough" % pid,
        "evidence_file": "/verif/evidence/%s.json" % pid,
        "replay_cmd_template": "./check.sh --replay {path}",
        "engine": "symgo",
        "level_claimed": {"category": "model_checking", "text": c["text"], "design_ref": c.get("design_ref", "DESIGN.md section 4 " + pid)},
        "level_note": c["note"],
        "technique": c.get("technique", "bounded symbolic execution of the real code's go/ssa with SMT-decided branches and assertions (z3/cvc5); counterexamples replayed natively"),
    })
m = {
    "version": 1,
    "setup_cmd": "cd /verif/engine && GOFLAGS=-mod=mod GOPROXY=off GOSUMDB=off GOTOOLCHAIN=local go build -o ../bin/symgo .",
    "hooks": {
        "guard": "verif",
        "enable": "harnesses are overlay files (go/packages Overlay and go test -overlay) built with -tags verif; nothing is committed to /repo for hooks",
        "baseline_off_cmd": "cd /repo && go test -vet=off -count=1 -timeout 25m ./...",
        "source_commits": [],
        "add_only": True,
    },
    "engines": [{"name": "symgo", "path": "/verif/engine", "serves_properties": [c["property_id"] for c in checks],
                 "kind_free_text": "own symbolic interpreter over go/ssa (x/tools v0.29.0): scalars are SMT terms (bit-vectors/Bool/FP), path exploration by re-execution, z3 4.8.12 per worker (cvc5 for floating point, z3 5.1 cross-check), symbolic scheduler with preemption bound for goroutines, native replay of counterexamples via go test -overlay"}],
    "checks": checks,
    "not_applicable": na,
    "notes": table.get("notes", ""),
}
json.dump(m, open(os.path.join(VD, "MANIFEST.json"), "w"), indent=1)
print("MANIFEST.json: %d checks, %d not_applicable" % (len(checks), len(na)))
