#!/bin/sh
# usage: tools/run_all.sh <quick|thorough> [ids...] — runs every claimed check in turn, prints one line each
TIER="${1:-quick}"; shift
cd "$(dirname "$0")/.." || exit 2
IDS="$*"
[ -z "$IDS" ] && IDS=$(python3 -c "import json;print(' '.join(c['property_id'] for c in json.load(open('MANIFEST.json'))['checks']))")
mkdir -p logs
RC=0
for id in $IDS; do
  S=$(date +%s)
  ./check.sh "$id" "$TIER" > "logs/$id.$TIER.log" 2>&1; rc=$?
  E=$(date +%s)
  echo "$id $TIER exit=$rc wall=$((E-S))s $(grep -a -c '^VIOLATION' logs/$id.$TIER.log) violations; $(grep -a '^INCONCLUSIVE' logs/$id.$TIER.log | head -2 | tr '\n' ';')"
  [ $rc -ne 0 ] && RC=1
done
exit $RC
