#!/usr/bin/env python3
"""usage: seed_meta.py <id> <mN> <needs> <detected_by> <status> — writes /verif/seeded/<id>/<mN>/meta.json"""
import json, sys, os
pid, m, needs, det, status = sys.argv[1:6]
d = "/verif/seeded/%s/%s" % (pid, m)
meta = {
 "property": pid,
 "seed": m,
 "breaks": open(os.path.join(d, "notes.md")).read().split("\n")[0:6],
 "needs_to_manifest": needs,
 "confirmed": "tools/confirm_seed.sh in a scratch worktree: patch applies and builds; existing package tests pass with it; demo_test.go fails with the patch and passes without",
 "checked_with": "tools/try_mutant.sh %s/patch.diff %s quick (git -C /repo apply; ./check.sh; git -C /repo checkout -- .)" % (d, pid),
 "detected_by": det,
 "status": status,
}
json.dump(meta, open(os.path.join(d, "meta.json"), "w"), indent=1)
print("wrote", d + "/meta.json")
