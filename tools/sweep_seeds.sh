#!/bin/sh
# usage: tools/sweep_seeds.sh — tries every stored seed (seeded/<id>/m*/patch.diff) against its property's quick check
# in a throw-away worktree; prints one line per seed. Expected: every line "detected".
cd "$(dirname "$0")/.." || exit 2
for d in seeded/*/m*; do
  id=$(basename "$(dirname "$d")"); m=$(basename "$d")
  [ -f "$d/patch.diff" ] || { echo "$id/$m no patch.diff (superseded)"; continue; }
  out=$(TRY_IN_WORKTREE=1 tools/try_mutant.sh "$d/patch.diff" "$id" quick 2>&1)
  if echo "$out" | grep -q "^VIOLATION"; then echo "$id/$m detected ($(echo "$out" | grep -m1 -o 'entry=[A-Za-z0-9]* label=[a-z-]*'))";
  elif echo "$out" | grep -q "patch does not apply"; then echo "$id/$m PATCH DOES NOT APPLY";
  else echo "$id/$m NOT DETECTED ($(echo "$out" | tail -1))"; fi
done
