#!/bin/sh
# usage: tools/try_mutant.sh <patch.diff> <property id> [tier]
# Applies the patch to /repo (git apply), runs the check, reverts (git checkout -- .).
# With TRY_IN_WORKTREE=1 the patch is applied to a throw-away worktree of /repo's HEAD
# instead and the engine is pointed at it (VERIF_REPO), so /repo stays untouched.
PATCH="$(readlink -f "$1")"; ID="$2"; TIER="${3:-quick}"
if [ -n "$TRY_IN_WORKTREE" ]; then
  WT=/tmp/wt_try_$$
  git -C /repo worktree add -q --detach "$WT" HEAD || exit 2
  (cd "$WT" && git apply "$PATCH") || { echo "patch does not apply"; git -C /repo worktree remove --force "$WT"; exit 3; }
  cd /verif && VERIF_REPO="$WT" VERIF_NO_EVIDENCE=1 ./check.sh "$ID" "$TIER" > /tmp/mutant_out.$$ 2>&1; RC=$?
  git -C /repo worktree remove --force "$WT"
else
  cd /repo || exit 2
  if ! git diff --quiet; then echo "/repo has uncommitted changes; refusing"; exit 2; fi
  git apply "$PATCH" || { echo "patch does not apply"; exit 3; }
  cd /verif && VERIF_NO_EVIDENCE=1 ./check.sh "$ID" "$TIER" > /tmp/mutant_out.$$ 2>&1; RC=$?
  git -C /repo checkout -- .
fi
grep -a -E "VIOLATION|KNOWN-FINDING|INCONCLUSIVE|PASS|BROKEN|label=" /tmp/mutant_out.$$ | cut -c1-220 | head -20
rm -f /tmp/mutant_out.$$
echo "exit=$RC"
exit $RC
