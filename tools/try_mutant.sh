#!/bin/sh
# usage: tools/try_mutant.sh <patch.diff> <property id> [tier]  — applies the patch to /repo, runs the check, reverts.
PATCH="$1"; ID="$2"; TIER="${3:-quick}"
cd /repo || exit 2
if ! git diff --quiet; then echo "/repo has uncommitted changes; refusing"; exit 2; fi
git apply "$PATCH" || { echo "patch does not apply"; exit 3; }
cd /verif && VERIF_NO_EVIDENCE=1 ./check.sh "$ID" "$TIER" > /tmp/mutant_out.$$ 2>&1; RC=$?
git -C /repo checkout -- .
grep -E "VIOLATION|KNOWN-FINDING|INCONCLUSIVE|PASS|BROKEN|label=" /tmp/mutant_out.$$ | head -20
rm -f /tmp/mutant_out.$$
echo "exit=$RC"
exit $RC
